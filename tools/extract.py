#!/usr/bin/env python3
"""Mechanical extractor for the Verus route.

A unit template (specs/<unit>.vrs) is a Verus source file with holes.  Each hole names an
item of /repo's *current working tree* (file | container | name); the extractor cuts that
item out verbatim, applies the enumerated rewrite rules, splices the contract text that the
template carries for it and writes one self-contained Verus file.  Nothing of a function
body is typed by hand; every rule that fires is recorded (`--explain`, and in the .map.json
that run_verus.py copies into the evidence file).

Directive syntax (each directive line starts with `//@`):

  //@fn <file> | <container substring or -> | <name>
  //@ret r                         name the return value:  `-> T`  =>  `-> (r: T)`
  //@sub `<old text>` => `<new text>`     literal substitution inside the item (must match >= 1x)
  //@subn `<old>` => `<new>`       same but allowed to match 0 times (optional rule)
  //@loop <ordinal>                contract for the <ordinal>-th loop keyword of the body (1-based)
  //@| invariant ...               (lines attached to the most recent section)
  //@hint after `<anchor text>`    proof text inserted after the statement ending at/after anchor
  //@| assert(...);
  //@hint before `<anchor text>`   proof text inserted immediately before the anchor text
  //@prologue                      proof text inserted right after the body's opening brace
  //@spec                          contract spliced between signature and body
  //@| requires ...
  //@| ensures ...
  //@keepattr                      keep attributes (default: R1 strips them)
  //@nobody                        emit only the signature + contract + `;` (trait method decl)
  //@end

  //@struct <file> | <container or -> | <Name>      (also: //@enum, //@trait-less items)
  //@sub ...                       as above
  //@end

`<file>` is relative to the repo root, or `EXPANDED` for the compiler-expanded crate
(cargo +nightly rustc --lib -- -Zunpretty=expanded, produced by run_verus.py per run).

Rewrite rules (global, always on; each application is logged):
  R1  attributes #[inline..] #[cold] #[must_use] #[allow..] #[track_caller] #[derive(..)] (for
      structs: derive kept only for Clone/Copy/Default/PartialEq/Eq) #[doc..] and doc comments removed; visibility
      `pub(crate)`/`pub(super)`/private -> `pub` for fields and items; `const fn` -> `fn`.
  R10 byte-string literals b".." in function bodies -> `&[0x.., ..]` (same bytes; Verus does not model literal contents)
  R13 (opt-in `//@strlit`) string literals ".." in a function body -> `str_lit_v(&[bytes])` with the literal's own bytes
  R12 `if let P = E && C { B }` without `else` -> `if let P = E { if C { B } }` (Verus has no let-chains)
  R2  `trace!(..);` statements removed; `debug_assert!(e[, msg..])` -> `assert(e)` (becomes a
      proof obligation); `debug_assert_eq!(a, b..)` -> `assert(a == b)`.
"""
import json
import os
import re
import sys

sys.path.insert(0, os.path.dirname(os.path.abspath(__file__)))
import rustscan as rs


class LostAnchor(Exception):
    pass


def expand_includes(text, base):
    """`//@include <path relative to /verif>` lines are replaced by that file's text (recursively)."""
    out = []
    for ln in text.split("\n"):
        m = re.match(r"\s*//@include\s+(\S+)\s*$", ln)
        if m:
            inc = open(os.path.join(base, m.group(1)), encoding="utf-8").read()
            out.append(expand_includes(inc, base).rstrip("\n"))
        else:
            out.append(ln)
    return "\n".join(out)


def apply_variant(text, variant):
    """Lines `//@|?NAME <text>` belong to the finding-probe variant NAME of a unit: they are kept (as `//@| <text>`)
    only when that variant is built and dropped otherwise."""
    out = []
    for ln in text.split("\n"):
        m = re.match(r"(\s*)//@\|\?([\w-]+) ?(.*)$", ln)
        if m:
            if variant == m.group(2):
                out.append(m.group(1) + "//@| " + m.group(3))
            continue
        out.append(ln)
    return "\n".join(out)


def parse_template(text, variant=None):
    """-> list of ('text', str) | ('item', dict)"""
    out = []
    text = expand_includes(text, os.path.dirname(os.path.dirname(os.path.abspath(__file__))))
    text = apply_variant(text, variant)
    lines = text.split("\n")
    i = 0
    buf = []
    while i < len(lines):
        ln = lines[i]
        s = ln.strip()
        m = re.match(r"//@(statedispatch|statetags|fnset|fn|struct|enum|trait|type|const)\s+(.*)$", s)
        if m:
            if buf:
                out.append(("text", "\n".join(buf) + "\n"))
                buf = []
            parts = [p.strip() for p in m.group(2).split("|", 2)]
            if len(parts) != 3:
                raise SystemExit(f"template: bad directive: {s}")
            d = dict(kind=m.group(1), file=parts[0], container=parts[1], name=parts[2],
                     ret=None, subs=[], resubs=[], excepts=[], loops={}, loopbodies={}, hints=[], spec=[], prologue=[], tags=[], attrs=[], specfrom=None, extbody=False, keepattr=False, nobody=False,
                     line=i + 1)
            cur = None
            i += 1
            while i < len(lines):
                s = lines[i].strip()
                if s == "//@end":
                    break
                if s.startswith("//@|"):
                    body = lines[i].split("//@|", 1)[1]
                    if body.startswith(" "):
                        body = body[1:]
                    if cur is None:
                        raise SystemExit(f"template line {i+1}: continuation without section")
                    cur.append(body)
                elif s.startswith("//@ret"):
                    d["ret"] = s.split()[1] if len(s.split()) > 1 else "r"
                elif s.startswith("//@subn") or s.startswith("//@sub"):
                    opt = s.startswith("//@subn")
                    mm = re.match(r"//@subn?\s+`(.*)`\s*=>\s*`(.*)`\s*$", s)
                    if not mm:
                        raise SystemExit(f"template line {i+1}: bad sub: {s}")
                    d["subs"].append((mm.group(1).replace("\\n", "\n"), mm.group(2).replace("\\n", "\n"), opt))
                elif s.startswith("//@resub"):
                    mm = re.match(r"//@resub\s+`(.*)`\s*=>\s*`(.*)`\s*$", s)
                    if not mm:
                        raise SystemExit(f"template line {i+1}: bad resub: {s}")
                    d["resubs"].append((mm.group(1), mm.group(2)))
                elif s.startswith("//@except"):
                    d["excepts"].extend(s.split()[1:])
                elif s.startswith("//@loopbody"):
                    cur = []
                    key = s.split()[1]
                    d["loopbodies"][key if key == "*" else int(key)] = cur
                elif s.startswith("//@loop"):
                    cur = []
                    key = s.split()[1]
                    d["loops"][key if key == "*" else int(key)] = cur
                elif s.startswith("//@hint"):
                    mm = re.match(r"//@hintn?\s+(after|before)\s+`(.*)`\s*$", s)
                    if not mm:
                        raise SystemExit(f"template line {i+1}: bad hint: {s}")
                    cur = []
                    d["hints"].append((mm.group(1), mm.group(2).replace("\\n", "\n"), cur, s.startswith("//@hintn")))
                elif s.startswith("//@spec") and not s.startswith("//@specfrom"):
                    cur = d["spec"]
                    tags = re.findall(r"@C\d+", s)
                    if re.sub(r"@C\d+", "", s[len("//@spec"):]).strip():
                        raise SystemExit(f"template line {i+1}: text after //@spec tags is ignored; put clauses on //@| lines: {s}")
                    d["tags"] = tags
                    if tags:
                        cur.append("// @default " + " ".join(tags))
                elif s.startswith("//@prologue"):
                    cur = d["prologue"]
                elif s.startswith("//@specfrom"):
                    d["specfrom"] = s[len("//@specfrom"):].strip()
                elif s.startswith("//@extbody"):
                    d["extbody"] = True
                elif s.startswith("//@attr"):
                    d["attrs"].append(s[len("//@attr"):].strip())
                elif s.startswith("//@keepattr"):
                    d["keepattr"] = True
                elif s.startswith("//@strlit"):
                    d["strlit"] = True
                elif s.startswith("//@nobody"):
                    d["nobody"] = True
                elif s.startswith("//@"):
                    raise SystemExit(f"template line {i+1}: unknown directive {s}")
                elif s == "" or (s.startswith("//") and not s.startswith("//@")):
                    pass
                else:
                    raise SystemExit(f"template line {i+1}: non-directive line inside item block: {s}")
                i += 1
            out.append(("item", d))
            i += 1
            continue
        buf.append(ln)
        i += 1
    if buf:
        out.append(("text", "\n".join(buf)))
    return out


STRIP_ATTR = re.compile(r"#\s*\[\s*(inline|cold|must_use|allow|track_caller|doc|derive|cfg_attr|expect|deny|warn|automatically_derived|repr|error|non_exhaustive|from|source)\b")
KEEP_DERIVES = {"Clone", "Copy", "Default", "PartialEq", "Eq"}


EXP_DBG = re.compile(r"if true\s*\{\s*if !([^{}]+?)\s*\{\s*\{\s*::core::panicking::panic_fmt\(format_args!\((?:[^;]|\n)*?\)\);\s*\}\s*\};?\s*\}")


def apply_global_rules(text, kind, log):
    """token-level R1/R2 on an item's text."""
    # R2 on compiler-expanded source: `debug_assert!(c, msg)` appears as `if true { if !c { { panic_fmt(..) } }; }`
    text, c = EXP_DBG.subn(lambda m: "assert(" + m.group(1).strip() + ")", text)
    if c:
        log.append(f"R2 expanded debug_assert! -> assert (proof obligation) x{c}")
    toks = rs.tokenize(text)
    out = []
    k = 0
    n = len(toks)

    def skip_ws(j):
        while j < n and toks[j].kind == "ws":
            j += 1
        return j

    depth = 0
    while k < n:
        t = toks[k]
        # doc comments
        if t.kind == "comment" and (t.text.startswith("///") or t.text.startswith("//!")):
            log.append("R1 doc comment removed")
            k += 1
            continue
        # attributes
        if t.kind == "punct" and t.text == "#":
            j = skip_ws(k + 1)
            if j < n and toks[j].kind == "punct" and toks[j].text == "[":
                e = rs.match_close(toks, j)
                atext = text[t.start:toks[e].end]
                if STRIP_ATTR.match(atext):
                    m = re.match(r"#\s*\[\s*derive\s*\((.*)\)\s*\]\s*$", atext, re.S)
                    if m and kind in ("struct", "enum"):
                        names = [x.strip() for x in m.group(1).split(",") if x.strip()]
                        keep = [x for x in names if x in KEEP_DERIVES]
                        dropped = [x for x in names if x not in KEEP_DERIVES]
                        if dropped:
                            log.append("R1 derive dropped: " + ",".join(dropped))
                        if keep:
                            out.append("#[derive(" + ", ".join(keep) + ")]")
                    else:
                        log.append("R1 attribute removed: " + rs.norm(atext)[:60])
                    k = e + 1
                    continue
        # trace!(..);  debug_assert!(..)
        if t.kind == "ident" and t.text in ("trace", "debug_assert", "debug_assert_eq"):
            j = skip_ws(k + 1)
            if j < n and toks[j].kind == "punct" and toks[j].text == "!":
                o = skip_ws(j + 1)
                if o < n and toks[o].kind == "punct" and toks[o].text in "([{":
                    e = rs.match_close(toks, o)
                    if t.text == "trace":
                        s = skip_ws(e + 1)
                        if s < n and toks[s].kind == "punct" and toks[s].text == ";":
                            e = s
                        log.append("R2 trace! statement removed")
                        k = e + 1
                        continue
                    # split top-level args on commas
                    args, cur, d = [], [], 0
                    for q in range(o + 1, e):
                        u = toks[q]
                        if u.kind == "punct" and u.text in rs.OPEN:
                            d += 1
                        elif u.kind == "punct" and u.text in rs.CLOSE:
                            d -= 1
                        if u.kind == "punct" and u.text == "," and d == 0:
                            args.append("".join(cur))
                            cur = []
                        else:
                            cur.append(u.text)
                    args.append("".join(cur))
                    if t.text == "debug_assert":
                        out.append("assert(" + args[0].strip() + ")")
                        log.append("R2 debug_assert! -> assert (proof obligation): " + rs.norm(args[0])[:60])
                    else:
                        out.append("assert(" + args[0].strip() + " == " + args[1].strip() + ")")
                        log.append("R2 debug_assert_eq! -> assert (proof obligation)")
                    k = e + 1
                    continue
        # R10 byte-string literals: Verus knows the length but not the contents of b"..": rewritten to the array literal of
        # the same bytes (computed here from the literal token)
        if t.kind == "str" and t.text.startswith('b"') and kind == "fn":
            try:
                val = eval(t.text)  # a Rust byte-string literal without exotic escapes is a valid Python bytes literal
            except Exception:
                val = None
            if isinstance(val, (bytes, bytearray)) and "\\u" not in t.text:
                out.append("&[" + ", ".join(f"0x{b:02x}u8" for b in val) + "]")
                log.append(f"R10 byte-string literal {t.text} -> array literal of the same bytes")
                k += 1
                continue
        # visibility
        if t.kind == "ident" and t.text == "pub":
            j = skip_ws(k + 1)
            if j < n and toks[j].kind == "punct" and toks[j].text == "(":
                e = rs.match_close(toks, j)
                log.append("R1 " + rs.norm(text[t.start:toks[e].end]) + " -> pub")
                out.append("pub")
                k = e + 1
                continue
        if t.kind == "ident" and t.text == "const":
            j = skip_ws(k + 1)
            if j < n and toks[j].kind == "ident" and toks[j].text == "fn":
                log.append("R1 const fn -> fn")
                k = j
                continue
        out.append(t.text)
        k += 1
    return "".join(out)


def make_fields_pub(text, kind, log):
    """struct fields -> pub (Verus opacity). Only for brace structs and tuple structs."""
    if kind != "struct":
        return text
    toks = rs.tokenize(text)
    sg = rs.sig(toks)
    # find struct keyword then the first { or ( at depth 0 after name/generics
    ks = next(i for i in sg if toks[i].kind == "ident" and toks[i].text == "struct")
    j = ks
    angle = 0
    body = None
    while j < len(toks):
        u = toks[j]
        if u.kind == "punct":
            if u.text == "<":
                angle += 1
            elif u.text == ">":
                angle -= 1
            elif u.text in "{(" and angle == 0:
                body = j
                break
            elif u.text == ";":
                break
        j += 1
    if body is None:
        return text
    e = rs.match_close(toks, body)
    # iterate fields: at depth 0 inside body, a field starts after `{`/`(` or `,`
    pieces = [text[:toks[body].end]]
    start_field = True
    d = 0
    angle = 0
    k = body + 1
    changed = 0
    while k < e:
        u = toks[k]
        if start_field and u.kind not in ("ws", "comment"):
            if u.kind == "punct" and u.text == "#":
                # attribute on field: copy through
                j2 = k + 1
                while toks[j2].kind == "ws":
                    j2 += 1
                e2 = rs.match_close(toks, j2)
                pieces.append(text[u.start:toks[e2].end])
                k = e2 + 1
                continue
            if not (u.kind == "ident" and u.text == "pub"):
                pieces.append("pub ")
                changed += 1
            start_field = False
        if u.kind == "punct":
            if u.text in rs.OPEN:
                d += 1
            elif u.text in rs.CLOSE:
                d -= 1
            elif u.text == "<":
                angle += 1
            elif u.text == ">" and k > 0 and toks[k - 1].text != "-":
                angle -= 1
            elif u.text == "," and d == 0 and angle == 0:
                start_field = True
        pieces.append(u.text)
        k += 1
    pieces.append(text[toks[e].start:])
    if changed:
        log.append(f"R1 {changed} field(s) made pub")
    return "".join(pieces)


LOOP_KW = {"loop", "while", "for"}


def rewrite_let_chains(text, log):
    """R12: `if let P = E && C { B }` (no `else`) -> `if let P = E { if C { B } }`.  Verus has no let-chains; without an else
    branch the two forms are the same program.  Chains with a second `let`, or with an `else`, are left alone (Verus then
    rejects the unit: inconclusive)."""
    for _round in range(20):
        toks = [t for t in rs.tokenize(text)]
        n = len(toks)
        done = True
        i = 0
        while i < n - 1:
            if toks[i].kind == "ident" and toks[i].text == "if":
                j = i + 1
                while j < n and toks[j].kind in ("ws", "comment"):
                    j += 1
                if j < n and toks[j].kind == "ident" and toks[j].text == "let":
                    # scan to the block's `{` at depth 0, remembering the first `&&` at depth 0
                    k = j + 1
                    depth = 0
                    andand = None
                    block = None
                    while k < n:
                        t = toks[k]
                        if t.kind == "punct" and t.text in "([":
                            k = rs.match_close(toks, k) + 1
                            continue
                        if t.kind == "punct" and t.text == "{":
                            block = k
                            break
                        if t.kind == "punct" and t.text == "&&" and andand is None:
                            andand = (k, k)
                        elif t.kind == "punct" and t.text == "&" and k + 1 < n and toks[k + 1].kind == "punct" and toks[k + 1].text == "&" and toks[k + 1].start == t.end and andand is None:
                            andand = (k, k + 1)
                        k += 1
                    if andand is not None and block is not None and andand[0] < block:
                        rest = text[toks[andand[1]].end:toks[block].start]
                        end = rs.match_close(toks, block)
                        m = end + 1
                        while m < n and toks[m].kind in ("ws", "comment"):
                            m += 1
                        has_else = m < n and toks[m].kind == "ident" and toks[m].text == "else"
                        if not has_else and not re.search(r"\blet\b", rest):
                            head = text[:toks[andand[0]].start].rstrip()
                            text = head + " { if " + rest.strip() + " " + text[toks[block].start:toks[end].end] + " }" + text[toks[end].end:]
                            log.append("R12 let-chain `if let P = E && C { B }` -> `if let P = E { if C { B } }` (no else branch)")
                            done = False
                            break
            i += 1
        if done:
            break
    return text


def splice_fn(text, d, log):
    """text: the fn item after global rules. Insert ret name, spec, loop contracts, hints."""
    nm = d["name"]
    d = dict(d)
    d["spec"] = [l.replace("{NAME}", nm) for l in d["spec"]]
    d["loops"] = {k: [l.replace("{NAME}", nm) for l in v] for k, v in d["loops"].items()}
    d["loopbodies"] = dict(d.get("loopbodies", {}))
    d["prologue"] = [l.replace("{NAME}", nm) for l in d["prologue"]]
    # substitutions first (on verbatim text)
    for old, new, opt in d["subs"]:
        c = text.count(old)
        if c == 0:
            if opt:
                continue
            raise LostAnchor(f"{d['name']}: substitution anchor not found: {old!r}")
        text = text.replace(old, new)
        log.append(f"SUB x{c}: {rs.norm(old)[:70]!r} => {rs.norm(new)[:70]!r}")

    for pat, rep in d.get("resubs", []):
        text, c = re.subn(pat, rep, text)
        if c:
            log.append(f"RESUB x{c}: /{pat[:60]}/ => {rep[:60]!r}")
    text = rewrite_let_chains(text, log)
    if d.get("strlit"):
        # R13 (opt-in): string literals "..." -> str_lit_v(&[bytes]) with the literal's own UTF-8 bytes, so that the contract
        # can speak about the bytes of the constants the function emits (Verus does not expose literal contents as bytes)
        toks = rs.tokenize(text)
        outp = []
        for t in toks:
            if t.kind == "str" and t.text.startswith('"'):
                try:
                    val = eval(t.text)
                except Exception:
                    val = None
                if isinstance(val, str):
                    outp.append("str_lit_v(&[" + ", ".join(f"0x{b:02x}u8" for b in val.encode()) + "])")
                    log.append(f"R13 string literal {t.text} -> str_lit_v(its bytes)")
                    continue
            outp.append(t.text)
        text = "".join(outp)

    toks = rs.tokenize(text)
    n = len(toks)
    # locate fn keyword
    kf = None
    for i, t in enumerate(toks):
        if t.kind == "ident" and t.text == "fn":
            kf = i
            break
        if t.kind == "punct" and t.text in rs.OPEN:
            break
    if kf is None:
        raise LostAnchor(f"{d['name']}: not a fn item")
    # signature end: first `{` or `;` at depth 0
    j = kf
    body = None
    arrow = None
    where_tok = None
    while j < n:
        u = toks[j]
        if u.kind == "punct" and u.text in "([":
            j = rs.match_close(toks, j) + 1
            continue
        if u.kind == "punct" and u.text == "-" and j + 1 < n and toks[j + 1].text == ">" and arrow is None:
            arrow = j
        if u.kind == "ident" and u.text == "where" and where_tok is None:
            where_tok = j
        if u.kind == "punct" and u.text == "{":
            body = j
            break
        if u.kind == "punct" and u.text == ";":
            break
        j += 1
    sig_end = toks[body].start if body is not None else toks[j].start
    inserts = []  # (offset, text)

    if d["ret"] and arrow is not None:
        rstart = toks[arrow + 2].start
        rend = toks[where_tok].start if where_tok is not None else sig_end
        rtype = text[rstart:rend].strip()
        inserts.append((rstart, rend, f" ({d['ret']}: {rtype})\n"))
        log.append(f"RET return value named `{d['ret']}`")
    spec_txt = "\n".join("    " + l for l in d["spec"])
    nobody_here = d["nobody"] and body is not None
    if spec_txt.strip() and not nobody_here:
        inserts.append((sig_end, sig_end, "\n" + spec_txt + "\n"))

    if body is not None and not d["nobody"]:
        bend = rs.match_close(toks, body)
        if d["prologue"]:
            inserts.append((toks[body].end, toks[body].end, "\n" + "\n".join("        " + l for l in d["prologue"]) + "\n"))
        # loops
        ordinal = 0
        k = body + 1
        while k < bend:
            u = toks[k]
            if u.kind == "ident" and u.text in LOOP_KW:
                # `for` in `for<'a>` (HRTB) / `impl X for Y` doesn't occur in bodies we extract
                ordinal += 1
                if ordinal in d["loops"] or "*" in d["loops"]:
                    # find the loop body's `{` : first `{` at paren depth 0 that is not part of a struct literal.
                    q = k + 1
                    while q < bend:
                        v = toks[q]
                        if v.kind == "punct" and v.text in "([":
                            q = rs.match_close(toks, q) + 1
                            continue
                        if v.kind == "punct" and v.text == "{":
                            break
                        q += 1
                    inv = "\n" + "\n".join("        " + l for l in d["loops"].get(ordinal, d["loops"].get("*"))) + "\n    "
                    inserts.append((toks[q].start, toks[q].start, inv))
                    lb = d.get("loopbodies", {}).get(ordinal, d.get("loopbodies", {}).get("*"))
                    if lb:
                        inserts.append((toks[q].end, toks[q].end, "\n" + "\n".join("            " + l for l in lb) + "\n"))
            k += 1
        for o in d["loops"]:
            if o != "*" and o > ordinal:
                raise LostAnchor(f"{d['name']}: loop #{o} not found (body has {ordinal} loops)")
        # hints
        bstart, bstop = toks[body].start, toks[bend].end
        for where, anchor, lines, optional in d["hints"]:
            pos = text.find(anchor, bstart, bstop)
            if pos < 0:
                if optional:
                    continue
                raise LostAnchor(f"{d['name']}: hint anchor not found: {anchor!r}")
            if text.find(anchor, pos + 1, bstop) >= 0:
                raise LostAnchor(f"{d['name']}: hint anchor ambiguous: {anchor!r}")
            htxt = "\n" + "\n".join("        " + l for l in lines) + "\n"
            if where == "before":
                inserts.append((pos, pos, htxt))
            else:
                # after the statement: first `;` at relative depth 0 at/after anchor end
                aend = pos + len(anchor)
                q = next(i for i, t in enumerate(toks) if t.end >= aend)
                if anchor.rstrip().endswith(";") or anchor.rstrip().endswith("}") or anchor.rstrip().endswith("{"):
                    inserts.append((aend, aend, htxt))
                else:
                    depth = 0
                    while q < bend:
                        v = toks[q]
                        if v.kind == "punct" and v.text in rs.OPEN:
                            depth += 1
                        elif v.kind == "punct" and v.text in rs.CLOSE:
                            depth -= 1
                        elif v.kind == "punct" and v.text == ";" and depth <= 0:
                            break
                        q += 1
                    inserts.append((toks[q].end, toks[q].end, htxt))
    elif d["nobody"] and body is not None:
        bend = rs.match_close(toks, body)
        inserts.append((toks[body].start, toks[bend].end, "\n" + spec_txt + "\n;"))
        log.append("NOBODY body dropped (declaration only)")
    if d.get("extbody") and body is not None:
        bend = rs.match_close(toks, body)
        inserts = [x for x in inserts if not (toks[body].start < x[0] <= toks[bend].end)]
        inserts.append((toks[body].start, toks[bend].end, "{ unimplemented!() }"))
        log.append("EXTBODY body replaced by unimplemented!() (trait-impl glue; the real body is verified as the inherent twin)")

    inserts.sort(key=lambda x: x[0], reverse=True)
    for a, b, s in inserts:
        text = text[:a] + s + text[b:]
    if d.get("extbody"):
        if "#[verifier::external_body]" not in d.get("attrs", []):
            d["attrs"] = list(d.get("attrs", [])) + ["#[verifier::external_body]"]
    if d.get("attrs"):
        lead = re.match(r"\s*", text).group(0)
        text = lead + "\n".join(d["attrs"]) + "\n" + text[len(lead):]
    return text


def split_entered(text, name):
    """R7: a `state!` expansion with enter actions has the shape
         fn X(&mut self, context, input) -> StateResult { <enter actions>
             let entered: fn(..) -> StateResult = |this, context, input| { BODY };
             self.set_state(entered); return entered(self, context, input); }
    It is split into X (enter actions, then set_state(Self::X__entered); return Self::X__entered(self, context, input))
    and fn X__entered(&mut self, context, input) -> StateResult { BODY } with `this` renamed to `self`.
    Returns [(name, text)] (one element if the shape does not occur)."""
    toks = rs.tokenize(text)
    sg = rs.sig(toks)
    k = None
    for a, b in zip(sg, sg[1:]):
        if toks[a].kind == "ident" and toks[a].text == "let" and toks[b].kind == "ident" and toks[b].text == "entered":
            k = a
            break
    if k is None:
        return [(name, text)]
    # signature: up to the fn body's opening brace
    body = next(i for i in sg if toks[i].kind == "punct" and toks[i].text == "{")
    # closure: first `|` after `=` following `let entered`
    j = k
    while not (toks[j].kind == "punct" and toks[j].text == "="):
        j += 1
    bars = []
    q = j
    while len(bars) < 2:
        q += 1
        if toks[q].kind == "punct" and toks[q].text == "|":
            bars.append(q)
    params = "".join(t.text for t in toks[bars[0] + 1:bars[1]])
    if rs.norm(params) != "this, context, input":
        raise LostAnchor(f"{name}: unexpected enter-action closure parameters: {params!r}")
    q = bars[1] + 1
    while toks[q].kind in ("ws", "comment"):
        q += 1
    if not (toks[q].kind == "punct" and toks[q].text == "{"):
        raise LostAnchor(f"{name}: enter-action closure body not a block")
    cend = rs.match_close(toks, q)
    body_txt = "".join(("self" if (t.kind == "ident" and t.text == "this") else t.text) for t in toks[q:cend + 1])
    tail = rs.norm("".join(t.text for t in toks[cend + 1:]))
    if tail.replace(" ", "") != ";self.set_state(entered);returnentered(self,context,input);}":
        raise LostAnchor(f"{name}: unexpected code after enter-action closure: {tail[:80]!r}")
    sig_txt = text[:toks[body].start]
    first = (text[:toks[k].start] + f"self.set_state(Self::{name}__entered);\n"
             f"                return Self::{name}__entered(self, context, input);\n            }}")
    second = re.sub(r"\bfn\s+" + re.escape(name) + r"\b", "fn " + name + "__entered", sig_txt, count=1) + body_txt
    return [(name, first), (name + "__entered", second)]


class Extractor:
    def __init__(self, repo, expanded=None):
        self.repo = repo
        self.expanded = expanded
        self.cache = {}
        self.spec_registry = {}

    def load(self, f):
        if f not in self.cache:
            path = self.expanded if f == "EXPANDED" else os.path.join(self.repo, f)
            if path is None or not os.path.exists(path):
                raise LostAnchor(f"source file missing: {f}")
            src = open(path, encoding="utf-8").read()
            self.cache[f] = (src, rs.scan_items(src))
        return self.cache[f]

    def expand_fnset(self, d):
        """-> list of per-function directive dicts (source order) for a //@fnset."""
        src, scanned = self.load(d["file"])
        toks, items = scanned
        out = []
        rx = re.compile(d["name"])
        for it in items:
            if it.kind != "fn" or it.container is None or rs.norm(d["container"]) not in it.container:
                continue
            if not rx.search(it.name) or it.name in d["excepts"]:
                continue
            dd = dict(d)
            dd["kind"] = "fn"
            dd["name"] = it.name
            out.append(dd)
        if not out:
            raise LostAnchor(f"fnset matched nothing: {d['file']} | {d['container']} | /{d['name']}/")
        return out

    def extract(self, d):
        src, scanned = self.load(d["file"])
        kind = d["kind"]
        if kind == "fn":
            if d.get("specfrom"):
                key = (rs.norm(d["specfrom"]), d["name"])
                if key not in self.spec_registry:
                    raise LostAnchor(f"specfrom: no contract registered for {key}")
                reg = self.spec_registry[key]
                d = dict(d)
                own = [l for l in d["spec"] if not l.strip().startswith("// @default")]
                # the shared (trait-level) contract, optionally followed by implementation-specific extra `ensures` clauses
                d["spec"] = list(reg["spec"]) + own
                d["tags"] = sorted(set(reg["tags"]) | set(d["tags"]))
                if reg.get("ret") and not d.get("ret"):
                    d["ret"] = reg["ret"]
            else:
                if not d["tags"] and not d["spec"]:
                    # a trait-impl method without its own contract is checked against the trait's contract: it inherits its tags
                    m = re.search(r"impl\b.*?\b(\w+)(?:<[^>]*>)? for ", rs.norm(d["container"]))
                    if m:
                        for (ck, nm), reg in self.spec_registry.items():
                            if nm == d["name"] and re.match(r"trait " + re.escape(m.group(1)) + r"\b", ck) and reg["tags"]:
                                d = dict(d)
                                d["tags"] = list(reg["tags"])
                                d["inherited_tags"] = True
                                break
                self.spec_registry[(rs.norm(d["container"]), d["name"])] = dict(spec=list(d["spec"]), tags=list(d["tags"]), ret=d.get("ret"))
        cands = rs.find_item(src, kind, d["container"], d["name"], scanned)
        if not cands:
            raise LostAnchor(f"item not found: {d['file']} | {d['container']} | {kind} {d['name']}")
        if len(cands) > 1:
            # prefer non-test containers
            c2 = [c for c in cands if not (c.container and "mod tests" in c.container)]
            if len(c2) == 1:
                cands = c2
            else:
                raise LostAnchor(f"item ambiguous ({len(cands)}): {d['file']} | {d['container']} | {kind} {d['name']}")
        it = cands[0]
        raw = src[it.start:it.end]
        line = src.count("\n", 0, it.start) + 1
        log = []
        text = raw if d["keepattr"] else apply_global_rules(raw, kind, log)
        if kind == "fn" and d.get("split_entered"):
            parts = split_entered(text, d["name"])
            if len(parts) == 2:
                log.append("R7 enter-action closure split into " + parts[1][0])
            outs = []
            for (nm, tx) in parts:
                d2 = dict(d)
                d2["name"] = nm
                sub_log = list(log)
                outs.append((nm, splice_fn(tx, d2, sub_log), sub_log))
            has_body = True
            metas = []
            for (nm, tx, lg) in outs:
                metas.append((tx, dict(kind=kind, file=d["file"], container=d["container"], name=nm, has_body=True,
                          src_line=line, src_bytes=len(raw), rules=lg,
                          has_spec=bool(d["spec"]), n_spec_lines=len([l for l in d["spec"] if l.strip() and not l.strip().startswith("//")]),
                          tags=sorted(set(d["tags"]) | set(t for l in d["spec"] for t in re.findall(r"@C\d+", l))),
                          default_tags=d["tags"], n_loops=len(d["loops"]), n_hints=len(d["hints"]))))
            return metas
        if kind == "fn":
            text = splice_fn(text, d, log)
            # items inside impl blocks: force `pub` not needed
        else:
            for old, new, opt in d["subs"]:
                c = text.count(old)
                if c == 0:
                    if opt:
                        continue
                    raise LostAnchor(f"{d['name']}: substitution anchor not found: {old!r}")
                text = text.replace(old, new)
                log.append(f"SUB x{c}: {rs.norm(old)[:70]!r} => {rs.norm(new)[:70]!r}")
            text = make_fields_pub(text, kind, log)
            if not re.match(r"\s*(#\[[^\]]*\]\s*)*pub\b", text):
                text = re.sub(r"^(\s*(?:#\[[^\]]*\]\s*)*)(struct|enum|trait|type|const)\b", r"\1pub \2", text, count=1)
        has_body = it.body_open is not None and not d["nobody"] and not d.get("extbody")
        return text, dict(kind=kind, file=d["file"], container=d["container"], name=d["name"], has_body=has_body,
                          src_line=line, src_bytes=len(raw), rules=log,
                          has_spec=bool(d["spec"]), n_spec_lines=len([l for l in d["spec"] if l.strip() and not l.strip().startswith("//")]),
                          tags=sorted(set(d["tags"]) | set(t for l in d["spec"] for t in re.findall(r"@C\d+", l))),
                          default_tags=d["tags"],
                          n_loops=len(d["loops"]), n_hints=len(d["hints"]))


def build(template_path, repo, out_path, expanded=None, variant=None):
    tmpl = open(template_path, encoding="utf-8").read()
    parts = parse_template(tmpl, variant)
    ex = Extractor(repo, expanded)
    out = []
    items = []
    line = 1
    for kind, p in parts:
        if kind == "text":
            out.append(p)
            line += p.count("\n")
        else:
            if p["kind"] == "statedispatch":
                names = []
                src0, _sc = ex.load(p["file"])
                for dd in ex.expand_fnset(p):
                    names.append(dd["name"])
                    c = rs.find_item(src0, "fn", p["container"], dd["name"], _sc)
                    if c and "let entered" in rs.norm(src0[c[0].start:c[0].end]):
                        names.append(dd["name"] + "__entered")
                spec = "\n".join("        " + l for l in p["spec"])
                text = ("    // R4: `self.state()(self, context, input)` -- calling the stored fn pointer -- is the call of the state function whose\n"
                        "    // tag is stored (generated: one arm per state function of the expanded source)\n"
                        "    #[verifier::exec_allows_no_decreases_clause]\n"
                        "    fn call_state(&mut self, context: &mut Self::Context, input: &[u8]) -> (r: StateResult)\n" + spec + "\n    {\n        match self.state() {\n"
                        + "".join(f"            StateTag::{n} => Self::{n}(self, context, input),\n" for n in names) + "        }\n    }\n")
                out.append(text)
                line += text.count("\n")
                continue
            if p["kind"] == "statetags":
                names = []
                src0, _sc = ex.load(p["file"])
                for dd in ex.expand_fnset(p):
                    names.append(dd["name"])
                    c = rs.find_item(src0, "fn", p["container"], dd["name"], _sc)
                    if c and "let entered" in rs.norm(src0[c[0].start:c[0].end]):
                        names.append(dd["name"] + "__entered")
                text = ("// R4: one tag per state function (generated from the expanded source); stands for the fn pointer\n"
                        "#[allow(non_camel_case_types)]\n#[derive(Clone, Copy, PartialEq, Eq)]\npub enum StateTag {\n"
                        + "".join(f"    {n},\n" for n in names) + "}\n")
                out.append(text)
                line += text.count("\n")
                continue
            ds = ex.expand_fnset(p) if p["kind"] == "fnset" else [p]
            for dd in ds:
                if p["kind"] == "fnset":
                    dd["split_entered"] = True
                res1 = ex.extract(dd)
                if isinstance(res1, tuple):
                    res1 = [res1]
                for (text, meta) in res1:
                    if not text.endswith("\n"):
                        text += "\n"
                    meta["out_line_start"] = line
                    line += text.count("\n")
                    meta["out_line_end"] = line - 1
                    out.append(text)
                    items.append(meta)
    res = "".join(out)
    os.makedirs(os.path.dirname(os.path.abspath(out_path)), exist_ok=True)
    open(out_path, "w", encoding="utf-8").write(res)
    return items


def main():
    import argparse
    ap = argparse.ArgumentParser()
    ap.add_argument("template")
    ap.add_argument("--repo", default="/repo")
    ap.add_argument("--out", required=True)
    ap.add_argument("--expanded")
    ap.add_argument("--explain", action="store_true")
    a = ap.parse_args()
    try:
        items = build(a.template, a.repo, a.out, a.expanded)
    except LostAnchor as e:
        print(f"LOST-ANCHOR {e}")
        sys.exit(2)
    json.dump(items, open(a.out + ".map.json", "w"), indent=1)
    if a.explain:
        for it in items:
            print(f"{it['kind']} {it['file']}:{it['src_line']} {it['container']} :: {it['name']}")
            for r in it["rules"]:
                print("    " + r)
    print(f"extracted {len(items)} items -> {a.out}")


if __name__ == "__main__":
    main()
