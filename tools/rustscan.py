"""Brace/string/comment-aware scanner for Rust source (no regex over bodies).

Used by extract.py (Verus route) and inject_kani.py (Kani route) to locate items in
/repo's working tree by (file, container header, name) and to cut them out verbatim.
"""
import re

IDENT_START = set("abcdefghijklmnopqrstuvwxyzABCDEFGHIJKLMNOPQRSTUVWXYZ_")
IDENT_CONT = IDENT_START | set("0123456789")


class Tok:
    __slots__ = ("kind", "text", "start", "end")

    def __init__(self, kind, text, start, end):
        self.kind, self.text, self.start, self.end = kind, text, start, end

    def __repr__(self):
        return f"Tok({self.kind},{self.text!r},{self.start})"


def tokenize(src):
    """kinds: ident, punct, str, char, lifetime, num, comment, ws"""
    toks = []
    i, n = 0, len(src)
    while i < n:
        c = src[i]
        if c in " \t\r\n":
            j = i
            while j < n and src[j] in " \t\r\n":
                j += 1
            toks.append(Tok("ws", src[i:j], i, j))
            i = j
        elif src.startswith("//", i):
            j = src.find("\n", i)
            j = n if j < 0 else j
            toks.append(Tok("comment", src[i:j], i, j))
            i = j
        elif src.startswith("/*", i):
            depth, j = 1, i + 2
            while j < n and depth:
                if src.startswith("/*", j):
                    depth += 1
                    j += 2
                elif src.startswith("*/", j):
                    depth -= 1
                    j += 2
                else:
                    j += 1
            toks.append(Tok("comment", src[i:j], i, j))
            i = j
        elif c == '"' or (c in "bc" and src.startswith('"', i + 1)):
            j = i + (1 if c == '"' else 2)
            while j < n and src[j] != '"':
                j += 2 if src[j] == "\\" else 1
            j += 1
            toks.append(Tok("str", src[i:j], i, j))
            i = j
        elif (c == "r" and re.match(r'r#*"', src[i:i + 40] or "")) or (
            c == "b" and re.match(r'br#*"', src[i:i + 40] or "")
        ):
            m = re.match(r'b?r(#*)"', src[i:])
            hashes = m.group(1)
            endpat = '"' + hashes
            j = src.find(endpat, i + m.end())
            j = n if j < 0 else j + len(endpat)
            toks.append(Tok("str", src[i:j], i, j))
            i = j
        elif c == "'" or (c == "b" and src.startswith("'", i + 1)):
            k = i + (1 if c == "'" else 2)
            # char literal or lifetime
            if k < n and src[k] == "\\":
                j = k + 2
                while j < n and src[j] != "'":
                    j += 1
                j += 1
                toks.append(Tok("char", src[i:j], i, j))
                i = j
            elif k + 1 < n and src[k + 1] == "'" and src[k] != "'":
                j = k + 2
                toks.append(Tok("char", src[i:j], i, j))
                i = j
            elif k < n and ord(src[k]) > 127:
                j = k + 1
                while j < n and src[j] != "'":
                    j += 1
                j += 1
                toks.append(Tok("char", src[i:j], i, j))
                i = j
            else:
                j = k
                while j < n and src[j] in IDENT_CONT:
                    j += 1
                toks.append(Tok("lifetime", src[i:j], i, j))
                i = j
        elif c in IDENT_START:
            j = i
            while j < n and src[j] in IDENT_CONT:
                j += 1
            toks.append(Tok("ident", src[i:j], i, j))
            i = j
        elif c.isdigit():
            j = i
            while j < n and (src[j] in IDENT_CONT or (src[j] == "." and j + 1 < n and src[j + 1].isdigit())):
                j += 1
            toks.append(Tok("num", src[i:j], i, j))
            i = j
        else:
            toks.append(Tok("punct", c, i, i + 1))
            i += 1
    return toks


OPEN = {"(": ")", "[": "]", "{": "}"}
CLOSE = {")", "]", "}"}


def sig(toks):
    """indices of significant tokens (no ws/comments)"""
    return [k for k, t in enumerate(toks) if t.kind not in ("ws", "comment")]


def match_close(toks, k):
    """k indexes an opening bracket token; return index of its matching close."""
    depth = 0
    for j in range(k, len(toks)):
        t = toks[j]
        if t.kind == "punct":
            if t.text in OPEN:
                depth += 1
            elif t.text in CLOSE:
                depth -= 1
                if depth == 0:
                    return j
    raise ValueError("unbalanced brackets")


def norm(s):
    return re.sub(r"\s+", " ", s).strip()


class Item:
    def __init__(self, kind, name, container, start, end, body_open, toks_lo, toks_hi):
        self.kind = kind            # fn | struct | enum | trait | impl | mod | type | const
        self.name = name
        self.container = container  # normalised header text of enclosing impl/trait/mod chain
        self.start = start          # byte offset incl. attributes / doc comments
        self.end = end              # byte offset one past closing brace / semicolon
        self.body_open = body_open  # byte offset of body '{' (None for `;` items)
        self.toks_lo, self.toks_hi = toks_lo, toks_hi


ITEM_KW = {"fn", "struct", "enum", "trait", "impl", "mod", "type", "const", "static", "union"}
QUALS = {"pub", "const", "unsafe", "async", "extern", "default"}


def scan_items(src):
    """Return a flat list of Items (recursing into impl/trait/mod bodies)."""
    toks = tokenize(src)
    items = []

    def attr_start(k):
        """walk backwards over attributes, doc comments, visibility, qualifiers."""
        j = k
        while True:
            p = j - 1
            while p >= 0 and toks[p].kind == "ws":
                p -= 1
            if p < 0:
                break
            t = toks[p]
            if t.kind == "comment" and (t.text.startswith("///") or t.text.startswith("/**")):
                j = p
                continue
            if t.kind == "ident" and t.text in QUALS:
                j = p
                continue
            if t.kind == "str" and p >= 1:  # extern "C"
                q = p - 1
                while q >= 0 and toks[q].kind == "ws":
                    q -= 1
                if toks[q].kind == "ident" and toks[q].text == "extern":
                    j = q
                    continue
            if t.kind == "punct" and t.text == ")":
                # pub(crate) / pub(super)
                q = p
                depth = 0
                while q >= 0:
                    if toks[q].kind == "punct" and toks[q].text == ")":
                        depth += 1
                    elif toks[q].kind == "punct" and toks[q].text == "(":
                        depth -= 1
                        if depth == 0:
                            break
                    q -= 1
                r = q - 1
                while r >= 0 and toks[r].kind == "ws":
                    r -= 1
                if r >= 0 and toks[r].kind == "ident" and toks[r].text == "pub":
                    j = r
                    continue
                break
            if t.kind == "punct" and t.text == "]":
                q = p
                depth = 0
                while q >= 0:
                    if toks[q].kind == "punct" and toks[q].text == "]":
                        depth += 1
                    elif toks[q].kind == "punct" and toks[q].text == "[":
                        depth -= 1
                        if depth == 0:
                            break
                    q -= 1
                r = q - 1
                while r >= 0 and toks[r].kind == "ws":
                    r -= 1
                if r >= 0 and toks[r].kind == "punct" and toks[r].text == "#":
                    j = r
                    continue
                break
            break
        return j

    def walk(lo, hi, container):
        k = lo
        while k < hi:
            t = toks[k]
            if t.kind == "punct" and t.text in OPEN:
                k = match_close(toks, k) + 1
                continue
            if t.kind == "ident" and t.text in ITEM_KW:
                kw = t.text
                # `const` / `unsafe` etc. as qualifier of fn: skip, the fn keyword follows
                nxt = k + 1
                while nxt < hi and toks[nxt].kind in ("ws", "comment"):
                    nxt += 1
                if kw == "const" and nxt < hi and toks[nxt].kind == "ident" and toks[nxt].text in ("fn", "unsafe", "extern", "async"):
                    k += 1
                    continue
                if kw == "impl" and container is not None and False:
                    pass
                # previous significant token: `impl` inside types (`-> impl Trait`, `&mut impl X`) is not an item
                p = k - 1
                while p >= lo and toks[p].kind in ("ws", "comment"):
                    p -= 1
                if kw == "impl" and p >= lo and toks[p].kind == "punct" and toks[p].text not in ("}", ";", "]"):
                    k += 1
                    continue
                if kw == "impl" and p >= lo and toks[p].kind == "ident" and toks[p].text not in QUALS:
                    k += 1
                    continue
                if kw in ("type", "const", "static") and p >= lo and toks[p].kind == "punct" and toks[p].text in ("<", ",", "("):
                    k += 1
                    continue
                # find end of header: first `{` or `;` at bracket depth 0 (angle brackets ignored)
                j = k + 1
                body = None
                depth = 0
                while j < hi:
                    u = toks[j]
                    if u.kind == "punct":
                        if u.text in ("(", "["):
                            j = match_close(toks, j) + 1
                            continue
                        if u.text == "{":
                            body = j
                            break
                        if u.text == ";":
                            break
                        if u.text == "=" and kw in ("type", "const", "static"):
                            # initializer may contain braces; run to `;` at depth 0
                            while j < hi and not (toks[j].kind == "punct" and toks[j].text == ";"):
                                if toks[j].kind == "punct" and toks[j].text in OPEN:
                                    j = match_close(toks, j)
                                j += 1
                            break
                    j += 1
                if j >= hi:
                    k += 1
                    continue
                end_tok = match_close(toks, body) if body is not None else j
                # tuple struct: `struct X(...);` handled by the `;` branch
                name = None
                if kw in ("fn", "struct", "enum", "trait", "mod", "type", "const", "static", "union"):
                    if nxt < hi and toks[nxt].kind == "ident":
                        name = toks[nxt].text
                header = norm(src[toks[k].start: (toks[body].start if body is not None else toks[j].start)])
                if kw == "impl":
                    name = header
                s_tok = attr_start(k)
                it = Item(kw, name, container, toks[s_tok].start, toks[end_tok].end,
                          toks[body].start if body is not None else None, s_tok, end_tok)
                it.header = header
                items.append(it)
                if kw in ("impl", "trait", "mod") and body is not None:
                    walk(body + 1, end_tok, (container + " :: " if container else "") + header)
                k = end_tok + 1
                continue
            if t.kind == "ident" and t.text == "macro_rules":
                # skip macro definition body
                j = k
                while j < hi and not (toks[j].kind == "punct" and toks[j].text in OPEN):
                    j += 1
                if j < hi:
                    k = match_close(toks, j) + 1
                    continue
            k += 1

    walk(0, len(toks), None)
    return toks, items


def find_item(src, kind, container_sub, name, scanned=None):
    toks, items = scanned or scan_items(src)
    cands = []
    for it in items:
        if it.kind != kind or it.name != name:
            continue
        if container_sub in (None, "-", ""):
            if it.container is None or it.container.startswith("mod "):
                cands.append(it)
        else:
            if it.container is not None and norm(container_sub) in it.container:
                cands.append(it)
    return cands
