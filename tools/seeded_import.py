#!/usr/bin/env python3
"""Import a sub-agent's deliverables (<worktree>/verif_out/{patch.diff,demo.rs,note.txt}) as /verif/seeded/<id>/.
usage: seeded_import.py <id> <worktree> <property>"""
import json
import os
import shutil
import sys

ROOT = os.path.dirname(os.path.dirname(os.path.abspath(__file__)))
sid, wt, prop = sys.argv[1:4]
d = os.path.join(ROOT, "seeded", sid)
os.makedirs(d, exist_ok=True)
out = os.path.join(wt, "verif_out")
shutil.copy(os.path.join(out, "patch.diff"), os.path.join(d, "patch.diff"))
shutil.copy(os.path.join(out, "demo.rs"), os.path.join(d, "demo.rs"))
note = open(os.path.join(out, "note.txt")).read() if os.path.exists(os.path.join(out, "note.txt")) else ""
files = [l[6:].strip() for l in open(os.path.join(d, "patch.diff")) if l.startswith("+++ b/")]
json.dump(dict(property=prop, what=note.strip(), files=files), open(os.path.join(d, "meta.json"), "w"), indent=1)
print("imported", sid, files)
