#!/usr/bin/env python3
"""Run one Verus unit: extract from /repo's working tree, verify, classify.

Result dict (also printed as JSON with --json):
  status: ok | fail | inconclusive
  functions: {name: {success, time_us, rlimit}}
  failures: [{function, item, message, clause, span_text, rendered}]
  items: extraction map (functions under contract, rules fired)
  reason: for inconclusive
"""
import json
import os
import re
import subprocess
import sys
import time

HERE = os.path.dirname(os.path.abspath(__file__))
ROOT = os.path.dirname(HERE)
sys.path.insert(0, HERE)
import extract  # noqa: E402

VERUS_FLAGS = ["--edition=2024", "--output-json", "--time-expanded", "--triggers-mode", "silent",
               "--multiple-errors", "20", "--error-format=json", "--rlimit", "400", "--num-threads", "16"]
GENUINE = ("postcondition not satisfied", "precondition not satisfied", "assertion failed",
           "invariant not satisfied", "possible arithmetic underflow/overflow", "possible division by zero",
           "decreases not satisfied", "loop invariant", "index out of bounds", "recommendation not met",
           "possible bit shift underflow/overflow", "failed precondition", "unreachable", "might not be allowed",
           "cannot show")
LIMITS = ("Resource limit (rlimit) exceeded", "rlimit", "timed out", "timeout")


def expanded_source(repo, workdir):
    """cargo +nightly rustc --lib -- -Zunpretty=expanded on a scratch copy of the tree."""
    import hashlib
    h = hashlib.sha1()
    for root, _dirs, files in sorted(os.walk(os.path.join(repo, "src"))):
        for f in sorted(files):
            if f.endswith(".rs"):
                h.update(f.encode())
                h.update(open(os.path.join(root, f), "rb").read())
    os.makedirs(workdir, exist_ok=True)
    dst = os.path.join(workdir, "expanded_" + h.hexdigest()[:12] + ".rs")
    if os.path.exists(dst):
        return dst
    scratch = os.path.join(workdir, "exp_copy")
    subprocess.run(["rm", "-rf", scratch])
    os.makedirs(scratch)
    for item in ("src", "benches", "Cargo.toml", "Cargo.lock", "build.rs", "README.md"):
        sp = os.path.join(repo, item)
        if os.path.isdir(sp):
            subprocess.run(["cp", "-r", sp, os.path.join(scratch, item)], check=True)
        elif os.path.exists(sp):
            subprocess.run(["cp", sp, os.path.join(scratch, item)], check=True)
    env = dict(os.environ, CARGO_NET_OFFLINE="true", CARGO_TARGET_DIR=os.path.join(workdir, "exp_target"))
    p = subprocess.run(["cargo", "+nightly", "rustc", "--lib", "--offline", "--", "-Zunpretty=expanded"],
                       cwd=scratch, env=env, capture_output=True, text=True)
    subprocess.run(["rm", "-rf", scratch])
    if p.returncode != 0 or len(p.stdout) < 1000:
        raise extract.LostAnchor("macro expansion of the crate failed: " + p.stderr[-400:])
    open(dst, "w").write(p.stdout)
    return dst


def run_unit(unit, repo="/repo", workdir=None, canary=False, variant=None, keep=False, expanded=None):
    t0 = time.time()
    tmpl = os.path.join(ROOT, "specs", unit + ".vrs")
    workdir = workdir or os.path.join(ROOT, "build")
    os.makedirs(workdir, exist_ok=True)
    out_rs = os.path.join(workdir, unit.replace("-", "_") + ("__" + variant.replace("-", "_") if variant else "") + ".rs")
    res = dict(unit=unit, variant=variant, status="inconclusive", functions={}, failures=[], items=[], reason="", wall_s=0.0,
               verified=0, errors=0, smt_ms=0)
    needs_expanded = "EXPANDED" in extract.expand_includes(open(tmpl).read(), ROOT)
    try:
        exp = (expanded or expanded_source(repo, workdir)) if needs_expanded else None
        res["items"] = extract.build(tmpl, repo, out_rs, exp, variant)
    except extract.LostAnchor as e:
        res["reason"] = "lost-anchor: " + str(e)
        res["wall_s"] = time.time() - t0
        return res
    if canary:
        src = open(out_rs).read()
        out_rs = out_rs[:-3] + "__canary.rs"
        marker = "} // verus!"
        if marker not in src:
            res["reason"] = "template has no `} // verus!` marker for canary"
            return res
        src = src.replace(marker, "proof fn verif_canary_must_fail() ensures false {}\n" + marker, 1)
        open(out_rs, "w").write(src)
    cmd = ["verus", out_rs] + VERUS_FLAGS
    res["cmd"] = " ".join(cmd)
    env = dict(os.environ)
    p = subprocess.run(cmd, capture_output=True, text=True, cwd=workdir, env=env)
    # R11: Verus has no non-short-circuit `|` / `&` on bools.  `X |= E` on bools is rewritten, at exactly the span Verus names,
    # to `{ let verif_rhs: bool = E; X = X || verif_rhs; }` (both operands still evaluated, in the same order) and the unit is
    # re-run; every application is logged.  Anything that does not match this shape stays a hard (inconclusive) rejection.
    res["r11"] = []
    for _round in range(8):
        spans = []
        for ln in p.stderr.splitlines():
            ln = ln.strip()
            if not ln.startswith("{"):
                continue
            try:
                d = json.loads(ln)
            except Exception:
                continue
            if d.get("level") == "error" and re.search(r"bitwise (OR|AND) for bools", d.get("message", "")):
                for sp in d.get("spans", []):
                    if sp.get("is_primary"):
                        spans.append((sp["byte_start"], sp["byte_end"], "OR" if "bitwise OR" in d["message"] else "AND"))
        if not spans:
            break
        src_b = open(out_rs, "rb").read()
        changed = False
        for (bs, be, kind) in sorted(set(spans), reverse=True):
            semi = src_b.find(b";", be)
            nl = src_b.find(b"\n", be)
            if semi >= 0 and (nl < 0 or semi < nl):
                be = semi   # the primary span is the left operand only: extend to the end of the statement
            txt = src_b[bs:be].decode()
            opa, opl = ("|=", "||") if kind == "OR" else ("&=", "&&")
            m = re.match(r"^([^=|&\n]+?)\s*" + re.escape(opa) + r"\s*([^\n]+)$", txt)
            if m:
                rep = "{ let verif_rhs: bool = " + m.group(2) + "; " + m.group(1) + " = " + m.group(1) + " " + opl + " verif_rhs; }"
                src_b = src_b[:bs] + rep.encode() + src_b[be:]
                res["r11"].append(f"R11 `{txt}` => `{rep}`")
                changed = True
        if not changed:
            break
        open(out_rs, "wb").write(src_b)
        p = subprocess.run(cmd, capture_output=True, text=True, cwd=workdir, env=env)
    # SMT instability guard: a unit with failed obligations is re-run with two other solver seeds; a proof found under any seed
    # is a proof (the obligations are the same, only the search order differs).  A false obligation fails under every seed.
    res["seed_retries"] = 0
    if not canary:
        for seed in ("17", "4711"):
            try:
                j0 = json.loads(p.stdout)
                errs = j0.get("verification-results", {}).get("errors", 0)
                hard = j0.get("verification-results", {}).get("verified", 0) == 0 and errs == 0 and p.returncode != 0
            except Exception:
                break
            if errs == 0 or hard:
                break
            q = subprocess.run(cmd + ["--smt-option", "smt.random_seed=" + seed], capture_output=True, text=True, cwd=workdir, env=env)
            res["seed_retries"] += 1
            try:
                j1 = json.loads(q.stdout)
                if j1.get("verification-results", {}).get("errors", 1) == 0 and j1.get("verification-results", {}).get("verified", 0) > 0:
                    p = q
                    break
            except Exception:
                pass
    res["verus_exit"] = p.returncode
    try:
        j = json.loads(p.stdout)
    except Exception:
        res["reason"] = "verus produced no JSON: " + (p.stderr[-600:] or p.stdout[-600:])
        res["wall_s"] = time.time() - t0
        return res
    vr = j.get("verification-results", {})
    res["verified"] = vr.get("verified", 0)
    res["errors"] = vr.get("errors", 0)
    crate = os.path.basename(out_rs)[:-3]
    try:
        for m in j["times-ms"]["smt"]["smt-run-module-times"]:
            for f in m.get("function-breakdown", []):
                name = f["function"]
                if name.startswith(crate + "::"):
                    name = name[len(crate) + 2:]
                res["functions"][name] = dict(success=f.get("success", False), time_us=f.get("time-micros", 0),
                                              rlimit=f.get("rlimit", 0), mode=f.get("mode:", ""))
        res["smt_ms"] = j["times-ms"]["smt"]["total"]
    except Exception:
        pass
    # diagnostics
    diags = []
    for ln in p.stderr.splitlines():
        ln = ln.strip()
        if ln.startswith("{"):
            try:
                d = json.loads(ln)
            except Exception:
                continue
            if d.get("$message_type") == "diagnostic" and d.get("level") == "error":
                diags.append(d)
    items = res["items"]

    def item_of(line):
        for it in items:
            if it["out_line_start"] <= line <= it["out_line_end"]:
                return it
        return None

    try:
        gen_lines = open(out_rs).read().split("\n")
    except Exception:
        gen_lines = []

    def tags_at(line, it):
        """property tags of the contract clause at generated-file line `line` (1-based) inside item `it`."""
        if not gen_lines or line is None or line < 1 or line > len(gen_lines):
            return list(it.get("default_tags", [])) if it else []
        t = re.findall(r"@C\d+", gen_lines[line - 1])
        if t:
            return t
        lo = it["out_line_start"] if it else max(1, line - 80)
        k = line - 1
        while k >= lo:
            ln = gen_lines[k - 1].strip()
            if ln.startswith("//"):
                t = re.findall(r"@C\d+", ln)
                if t:
                    return t
            k -= 1
        return list(it.get("default_tags", [])) if it else []

    hard_errors = []
    for d in diags:
        msg = d.get("message", "")
        if msg.startswith("aborting due to"):
            continue
        spans = d.get("spans", [])
        prim = next((s for s in spans if s.get("is_primary")), spans[0] if spans else None)
        genuine = any(g in msg for g in GENUINE)
        limit = any(g in msg for g in LIMITS)
        if not spans or (not genuine and not limit):
            hard_errors.append(msg + " :: " + (d.get("rendered") or "")[:400])
            continue
        # the function in which the obligation failed: the span that lies inside an extracted item, or
        # for postconditions the "at the end of the function body" span
        fn_item = None
        for s in spans:
            it = item_of(s["line_start"])
            if it is not None and it["kind"] == "fn":
                fn_item = it
                if not s.get("is_primary"):
                    break
        clause = ""
        if prim and prim.get("text"):
            tx = prim["text"][0]
            clause = tx["text"][tx["highlight_start"] - 1: tx["highlight_end"] - 1] if len(prim["text"]) == 1 else " ".join(x["text"].strip() for x in prim["text"])
        # property attribution: the failed contract clause's tags (for a precondition: the callee's requires clause)
        tag_span = prim
        for sp in spans:
            if "failed precondition" in (sp.get("label") or "") or "failed this postcondition" in (sp.get("label") or ""):
                tag_span = sp
        tag_item = item_of(tag_span["line_start"]) if tag_span else None
        if "postcondition" in msg or "precondition" in msg:
            tags = tags_at(tag_span["line_start"], tag_item) if tag_span else []
        else:
            tags = list(fn_item.get("default_tags", [])) if fn_item else []
        res["failures"].append(dict(
            message=msg, limit=limit, clause=clause.strip(), tags=sorted(set(tags)),
            item=(fn_item["container"] + " :: " + fn_item["name"]) if fn_item else None,
            item_file=fn_item["file"] if fn_item else None,
            item_src_line=fn_item["src_line"] if fn_item else None,
            out_line=prim["line_start"] if prim else None,
            rendered=d.get("rendered", "")))
    res["wall_s"] = round(time.time() - t0, 2)
    if hard_errors:
        res["status"] = "inconclusive"
        res["reason"] = "verus rejected the unit (not a verification failure): " + hard_errors[0]
        res["hard_errors"] = hard_errors
    elif res["failures"]:
        if all(f["limit"] for f in res["failures"]):
            res["status"] = "inconclusive"
            res["reason"] = "resource limit: " + res["failures"][0]["message"]
        else:
            res["status"] = "fail"
    elif vr.get("success") and res["verified"] > 0:
        res["status"] = "ok"
    else:
        res["reason"] = "verus did not report success: " + json.dumps(vr) + p.stderr[-300:]
    if not keep and not canary:
        pass
    return res


def main():
    import argparse
    ap = argparse.ArgumentParser()
    ap.add_argument("unit")
    ap.add_argument("--repo", default="/repo")
    ap.add_argument("--workdir")
    ap.add_argument("--canary", action="store_true")
    ap.add_argument("--variant")
    ap.add_argument("--json", action="store_true")
    a = ap.parse_args()
    r = run_unit(a.unit, a.repo, a.workdir, a.canary, a.variant)
    if a.json:
        print(json.dumps(r, indent=1))
    else:
        print(f"unit {r['unit']}: {r['status']}  verified={r['verified']} errors={r['errors']} wall={r['wall_s']}s  {r['reason']}")
        for f in r["failures"]:
            print("-----", f["message"], "| item:", f["item"], "| tags:", ",".join(f["tags"]), "| clause:", f["clause"])
            print(f["rendered"])
        for h in r.get("hard_errors", [])[:6]:
            print("HARD:", h)
    sys.exit({"ok": 0, "fail": 1}.get(r["status"], 2))


if __name__ == "__main__":
    main()
