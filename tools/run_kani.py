#!/usr/bin/env python3
"""Kani route: contracts and harnesses are injected into a throw-away copy of /repo's working tree and discharged by
cargo-kani / CBMC.  Nothing is dropped from the real crate; the only substitution is the `memchr` crate (cpuid inline asm)
by a naive-loop shim (assumption A-memchr).

Group file  kani/<group>.rs :
   //@append <file relative to repo>            the following lines are appended to that source file (inside cfg(kani))
   //@contract <file> | <container> | <fn>      the following `//@| ` lines (attributes) are inserted above that fn
   //@harness <name> | complete|bounded | <bound text> | <props C..,C..> [| finding=<id>] [| expect=fail]
"""
import json
import os
import re
import shutil
import subprocess
import sys
import time

HERE = os.path.dirname(os.path.abspath(__file__))
ROOT = os.path.dirname(HERE)
sys.path.insert(0, HERE)
import rustscan as rs  # noqa: E402

SHIM = '''//! Naive reference implementation of the memchr API subset used by lol_html (verification shim, assumption A-memchr).
#![no_std]
pub fn memchr(n: u8, h: &[u8]) -> Option<usize> { let mut i = 0; while i < h.len() { if h[i] == n { return Some(i); } i += 1; } None }
pub fn memchr2(a: u8, b: u8, h: &[u8]) -> Option<usize> { let mut i = 0; while i < h.len() { if h[i] == a || h[i] == b { return Some(i); } i += 1; } None }
pub fn memchr3(a: u8, b: u8, c: u8, h: &[u8]) -> Option<usize> { let mut i = 0; while i < h.len() { if h[i] == a || h[i] == b || h[i] == c { return Some(i); } i += 1; } None }
pub fn memrchr(n: u8, h: &[u8]) -> Option<usize> { let mut i = h.len(); while i > 0 { i -= 1; if h[i] == n { return Some(i); } } None }
pub struct Memchr<'h> { n: [u8; 3], k: usize, h: &'h [u8], pos: usize }
impl<'h> Iterator for Memchr<'h> {
    type Item = usize;
    fn next(&mut self) -> Option<usize> {
        while self.pos < self.h.len() {
            let b = self.h[self.pos];
            self.pos += 1;
            let mut j = 0;
            while j < self.k { if self.n[j] == b { return Some(self.pos - 1); } j += 1; }
        }
        None
    }
}
pub fn memchr_iter(n: u8, h: &[u8]) -> Memchr<'_> { Memchr { n: [n, 0, 0], k: 1, h, pos: 0 } }
pub fn memchr2_iter(a: u8, b: u8, h: &[u8]) -> Memchr<'_> { Memchr { n: [a, b, 0], k: 2, h, pos: 0 } }
pub fn memchr3_iter(a: u8, b: u8, c: u8, h: &[u8]) -> Memchr<'_> { Memchr { n: [a, b, c], k: 3, h, pos: 0 } }
pub fn memrchr2(a: u8, b: u8, h: &[u8]) -> Option<usize> { let mut i = h.len(); while i > 0 { i -= 1; if h[i] == a || h[i] == b { return Some(i); } } None }
pub fn memrchr3(a: u8, b: u8, c: u8, h: &[u8]) -> Option<usize> { let mut i = h.len(); while i > 0 { i -= 1; if h[i] == a || h[i] == b || h[i] == c { return Some(i); } } None }
pub mod memmem {
    pub fn find(h: &[u8], n: &[u8]) -> Option<usize> {
        if n.len() > h.len() { return None; }
        let mut i = 0;
        while i + n.len() <= h.len() { if &h[i..i + n.len()] == n { return Some(i); } i += 1; }
        None
    }
}
'''


def parse_group(path):
    appends, contracts, harnesses = {}, [], []
    cur = None
    for ln in open(path).read().split("\n"):
        s = ln.strip()
        if s.startswith("//@append"):
            f = s.split(None, 1)[1].strip()
            cur = appends.setdefault(f, [])
            continue
        if s.startswith("//@contract"):
            parts = [p.strip() for p in s[len("//@contract"):].split("|")]
            c = dict(file=parts[0], container=parts[1], name=parts[2], lines=[])
            contracts.append(c)
            cur = c["lines"]
            continue
        if s.startswith("//@harness"):
            parts = [p.strip() for p in s[len("//@harness"):].split("|")]
            h = dict(name=parts[0], complete=(parts[1] == "complete"), bound=parts[2], props=[x.strip() for x in parts[3].split(",") if x.strip()],
                     finding=None, expect_fail=False)
            for extra in parts[4:]:
                if extra.startswith("finding="):
                    h["finding"] = extra.split("=", 1)[1]
                if extra == "expect=fail":
                    h["expect_fail"] = True
            harnesses.append(h)
            continue
        if cur is not None:
            if s.startswith("//@|"):
                body = ln.split("//@|", 1)[1]
                cur.append(body[1:] if body.startswith(" ") else body)
            else:
                cur.append(ln)
    return appends, contracts, harnesses


def prepare_copy(repo, work):
    dst = os.path.join(work, "kani_copy")
    shutil.rmtree(dst, ignore_errors=True)
    os.makedirs(dst)
    for item in ("src", "benches", "Cargo.toml", "Cargo.lock", "build.rs", "README.md"):
        sp = os.path.join(repo, item)
        if os.path.isdir(sp):
            shutil.copytree(sp, os.path.join(dst, item))
        elif os.path.exists(sp):
            shutil.copy(sp, os.path.join(dst, item))
    shim = os.path.join(work, "memchr_shim")
    os.makedirs(os.path.join(shim, "src"), exist_ok=True)
    lock = open(os.path.join(repo, "Cargo.lock")).read()
    m = re.search(r'name = "memchr"\nversion = "([^"]+)"', lock)
    ver = m.group(1) if m else "2.7.4"
    open(os.path.join(shim, "Cargo.toml"), "w").write(
        f'[package]\nname = "memchr"\nversion = "{ver}"\nedition = "2021"\n[features]\ndefault = ["std"]\nstd = ["alloc"]\nalloc = []\n[lib]\npath = "src/lib.rs"\n')
    open(os.path.join(shim, "src", "lib.rs"), "w").write(SHIM)
    ct = open(os.path.join(dst, "Cargo.toml")).read()
    ct += f'\n[patch.crates-io]\nmemchr = {{ path = "{shim}" }}\n'
    if "unexpected_cfgs" not in ct:
        ct = ct.replace("[lints.rust]", '[lints.rust]\nunexpected_cfgs = { level = "allow", check-cfg = ["cfg(kani)"] }')
    open(os.path.join(dst, "Cargo.toml"), "w").write(ct)
    os.makedirs(os.path.join(dst, ".cargo"), exist_ok=True)
    open(os.path.join(dst, ".cargo", "config.toml"), "w").write("[net]\noffline = true\n")
    return dst


def inject(dst, appends, contracts):
    notes = []
    for c in contracts:
        p = os.path.join(dst, c["file"])
        src = open(p).read()
        cands = rs.find_item(src, "fn", c["container"], c["name"])
        cands = [x for x in cands if not (x.container and "mod tests" in x.container)]
        if len(cands) != 1:
            raise RuntimeError(f"lost-anchor: contract target {c['file']} | {c['container']} | {c['name']} ({len(cands)} matches)")
        it = cands[0]
        # insert the attribute lines right before the item (after its doc comments/attributes start)
        ins = "\n".join(c["lines"]) + "\n"
        src = src[:it.start] + ins + src[it.start:]
        open(p, "w").write(src)
        notes.append(f"contract attributes on {c['file']}::{c['name']}")
    for f, lines in appends.items():
        p = os.path.join(dst, f)
        if not os.path.exists(p):
            raise RuntimeError(f"lost-anchor: append target missing: {f}")
        with open(p, "a") as fh:
            fh.write("\n" + "\n".join(lines) + "\n")
        notes.append(f"harness module appended to {f}")
    # crate-level feature gates needed by loop contracts (harmless otherwise)
    lib = os.path.join(dst, "src", "lib.rs")
    s = open(lib).read()
    open(lib, "w").write("#![cfg_attr(kani, feature(stmt_expr_attributes, proc_macro_hygiene))]\n#![cfg_attr(kani, allow(unused))]\n" + s)
    return notes


def playback(dst, gwork, env, base_cmd, harness, timeout=1500):
    """Counterexample of a failed harness: Kani's concrete playback values, and the generated unit test run natively against the
    real crate (real memchr: the shim is not used for the native run)."""
    res = dict(harness=harness, values=None, test=None, native_run=None)
    try:
        cmd = [c for c in base_cmd if c not in ("-j",)]
        # strip "-j N" and the harness list
        out_cmd, skip = [], 0
        for i, c in enumerate(base_cmd):
            if skip:
                skip -= 1
                continue
            if c in ("-j", "--harness"):
                skip = 1
                continue
            out_cmd.append(c)
        cmd = out_cmd + ["-Z", "concrete-playback", "--concrete-playback=inplace", "--harness", harness]
        p = subprocess.run(cmd, cwd=dst, env=env, capture_output=True, text=True, timeout=timeout)
        m = re.search(r"- (kani_concrete_playback_\w+)", p.stdout + p.stderr)
        if not m:
            res["native_run"] = "Kani produced no concrete playback test for this failure"
            return res
        tname = m.group(1)
        body = None
        for root, _d, files in os.walk(os.path.join(dst, "src")):
            for fn in files:
                t = open(os.path.join(root, fn)).read()
                k = t.find("fn " + tname)
                if k >= 0:
                    a = t.rfind("#[test]", 0, k)
                    b = t.find("\n}", k)
                    body = t[a:b + 2]
        res["test"] = body
        res["values"] = re.findall(r"// (.*)\n\s*vec!\[", body or "")
        # native run in a copy without the memchr patch
        pb = os.path.join(gwork, "playback_copy")
        shutil.rmtree(pb, ignore_errors=True)
        shutil.copytree(dst, pb, ignore=shutil.ignore_patterns("target"))
        ct = open(os.path.join(pb, "Cargo.toml")).read()
        ct = re.sub(r"\n\[patch\.crates-io\]\nmemchr = [^\n]*\n", "\n", ct)
        open(os.path.join(pb, "Cargo.toml"), "w").write(ct)
        env2 = dict(env, CARGO_TARGET_DIR=os.path.join(gwork, "target_playback"))
        q = subprocess.run(["cargo", "kani", "playback", "-Z", "concrete-playback", "--", tname], cwd=pb, env=env2, capture_output=True, text=True, timeout=timeout)
        txt = q.stdout + "\n" + q.stderr
        keep = [l for l in txt.split("\n") if re.search(r"panicked|assertion|test result|^test |FAILED|error(\[|:)", l)]
        res["native_run"] = "\n".join(keep[-25:]) or txt[-800:]
        res["native_exit"] = q.returncode
    except Exception as e:  # playback is best effort; the violation is reported regardless
        res["native_run"] = f"playback failed: {e}"
    return res


def run_group(group, repo="/repo", work=None, tier="quick", prop=None, only=None, jobs=8, timeout=3000):
    t0 = time.time()
    res = dict(group=group, status="inconclusive", reason="", harnesses=[], cmds=[], trusted=["A-memchr: memchr crate replaced by naive loops (cpuid inline asm unsupported by Kani)"], known_hits=[])
    path = os.path.join(ROOT, "kani", group + ".rs")
    appends, contracts, harnesses = parse_group(path)
    if prop:
        harnesses = [h for h in harnesses if prop in h["props"]]
    if only:
        harnesses = [h for h in harnesses if h["name"] in only]
    if tier == "quick":
        harnesses = [h for h in harnesses if "thorough-only" not in h["bound"]]
    if not harnesses:
        res["status"] = "ok"
        return res
    work = work or os.path.join(ROOT, "build")
    gwork = os.path.join(work, "kani_" + group)
    os.makedirs(gwork, exist_ok=True)
    try:
        dst = prepare_copy(repo, gwork)
        inject(dst, appends, contracts)
    except Exception as e:
        res["reason"] = str(e)
        return res
    env = dict(os.environ, CARGO_NET_OFFLINE="true", CARGO_TARGET_DIR=os.path.join(gwork, "target"))
    cmd = ["cargo", "kani", "-Z", "function-contracts", "-Z", "stubbing", "-Z", "loop-contracts", "-Z", "mem-predicates", "-j", str(jobs), "--output-format", "terse"]
    for h in harnesses:
        cmd += ["--harness", h["name"]]
    res["cmds"].append(" ".join(cmd) + f"   (in a scratch copy of {repo} with kani/{group}.rs injected)")
    try:
        p = subprocess.run(cmd, cwd=dst, env=env, capture_output=True, text=True, timeout=timeout)
        out = p.stdout + "\n" + p.stderr
    except subprocess.TimeoutExpired as e:
        res["reason"] = f"cargo kani timed out after {timeout}s"
        shutil.rmtree(gwork, ignore_errors=True)
        return res
    open(os.path.join(work, f"kani_{group}.log"), "w").write(out)
    if "error: could not compile" in out or "error[E" in out:
        res["reason"] = "build failure in the scratch copy: " + "\n".join(l for l in out.split("\n") if l.startswith("error"))[:600]
        shutil.rmtree(gwork, ignore_errors=True)
        return res
    # per-harness sections.  With -j the output is interleaved: "Thread N: Checking harness X..." and later "Thread N: " + result block
    seen = {}
    cur_by_thread = {}
    lines = out.split("\n")
    blocks = []   # (harness, text)
    i = 0
    cur_name = None
    cur_buf = []
    def flush():
        if cur_name is not None and cur_buf:
            blocks.append((cur_name, "\n".join(cur_buf)))
    while i < len(lines):
        ln = lines[i]
        m = re.match(r"(?:Thread (\d+): )?Checking harness (\S+?)\.\.\.", ln)
        if m:
            flush(); cur_buf = []
            tid = m.group(1)
            if tid is None:
                cur_name = m.group(2)
            else:
                cur_by_thread[tid] = m.group(2)
                cur_name = None
            i += 1
            continue
        m = re.match(r"Thread (\d+): ?$", ln)
        if m:
            flush(); cur_buf = []
            cur_name = cur_by_thread.get(m.group(1))
            i += 1
            continue
        if ln.startswith("Manual Harness Summary") or ln.startswith("Complete - "):
            flush(); cur_buf = []; cur_name = None
        if cur_name is not None:
            cur_buf.append(ln)
        i += 1
    flush()
    for name, sec in blocks:
        short = name.split("::")[-1]
        ok = "VERIFICATION:- SUCCESSFUL" in sec
        failed = "VERIFICATION:- FAILED" in sec
        if failed and ("CBMC failed" in sec or "out of memory" in sec or "CBMC timed out" in sec or not re.search(r"\*\* [1-9]\d* of \d+ failed|Failed Checks:|cover properties satisfied", sec)):
            # the back end gave up (memory / internal error): no verdict for this harness, never a violation
            continue
        m = re.search(r"Verification Time: ([0-9.]+)s", sec)
        tm = float(m.group(1)) if m else 0.0
        mchk = re.search(r"\*\* (\d+) of (\d+) failed", sec)
        checks = int(mchk.group(2)) if mchk else 0
        mcov = re.search(r"\*\* (\d+) of (\d+) cover properties satisfied", sec)
        covers = f"{mcov.group(1)}/{mcov.group(2)}" if mcov else None
        cover_bad = bool(mcov and mcov.group(1) != mcov.group(2))
        fc = ""
        mf = re.findall(r"Failed Checks: (.*)", sec)
        if mf:
            fc = "; ".join(mf[:4])
        if not (ok or failed):
            continue
        seen[short] = dict(ok=ok and not cover_bad, failed=failed or cover_bad, time_s=tm, checks=checks, covers=covers, failed_check=fc + (" UNSATISFIED COVER (vacuity)" if cover_bad else ""), output=sec[-2500:])
    missing = []
    for h in harnesses:
        r = seen.get(h["name"])
        if r is None:
            missing.append(h["name"])
            continue
        hh = dict(h)
        hh.update(r)
        if h["expect_fail"]:
            # finding probe: the harness states the property and is expected to FAIL on the unchanged tree
            if r["failed"] and h["finding"]:
                res["known_hits"].append(h["finding"])
            hh["ok"] = True
            hh["finding"] = h["finding"]
        res["harnesses"].append(hh)
    for hh in res["harnesses"]:
        if not hh["ok"] and not hh.get("expect_fail"):
            hh["playback"] = playback(dst, gwork, env, cmd, hh["name"])
    if missing:
        res["reason"] = f"harnesses produced no verdict (timeout/oom/unsupported?): {missing}; tail: {out[-400:]}"
        res["status"] = "inconclusive"
    else:
        res["status"] = "ok" if all(h["ok"] for h in res["harnesses"]) else "fail"
    res["wall_s"] = round(time.time() - t0, 1)
    shutil.rmtree(gwork, ignore_errors=True)
    return res


def main():
    import argparse
    ap = argparse.ArgumentParser()
    ap.add_argument("group")
    ap.add_argument("--repo", default="/repo")
    ap.add_argument("--tier", default="quick")
    ap.add_argument("--only", nargs="*")
    ap.add_argument("--prop")
    a = ap.parse_args()
    r = run_group(a.group, a.repo, None, a.tier, a.prop, a.only)
    print(f"group {r['group']}: {r['status']} {r['reason']} wall={r.get('wall_s')}")
    for h in r["harnesses"]:
        print(f"  {h['name']:50s} {'ok' if h['ok'] else 'FAILED'} complete={h['complete']} t={h['time_s']}s checks={h['checks']} covers={h['covers']} {h['failed_check']}")
    sys.exit({"ok": 0, "fail": 1}.get(r["status"], 2))


if __name__ == "__main__":
    main()
