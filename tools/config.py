"""Which units decide which property (DESIGN.md section 3.1 / 5).

verus:   list of unit names (specs/<unit>.vrs); every function whose contract carries the property's tag counts.
kani:    list of harness-group names (kani/<group>.rs) -- filled in as the Kani route is built.
bounded: list of bounded stand-ins (never counted as discharged).
findings: finding probes: (finding id, backend, unit, variant)
"""

PROPS = {
    "C01": dict(verus=["U-TS", "U-SM", "U-SER", "U-TXT"], kani=[], bounded=["U-PARSE-B"], findings=[]),
    "C02": dict(verus=["U-SM", "U-TS"], kani=[], bounded=["U-PARSE-B"], findings=[]),
    "C03": dict(verus=["U-SM", "U-TBSV"], kani=["U-TBS"], bounded=["U-PARSE-B"], findings=[]),
    "C04": dict(verus=["U-NTH", "U-DHS"], kani=["U-SEL", "U-STK"], bounded=["U-PARSE-B"], findings=[]),
    "C05": dict(verus=["U-TS", "U-DHS", "U-TXT", "U-TBSV", "U-MEMV", "U-ENC", "U-HVECV", "U-SSINK"], kani=["U-HVEC", "U-STK"], bounded=["U-PARSE-B"], findings=[]),
    "C06": dict(verus=["U-SM", "U-TS"], kani=[], bounded=["U-PARSE-B"], findings=[]),
    "C07": dict(verus=["U-TS", "U-SER"], kani=[], bounded=["U-PARSE-B"], findings=[]),
    "C08": dict(verus=["U-ESCQ", "U-ESCT"], kani=["U-ESC"], bounded=["U-PARSE-B"], findings=[]),
    "C09": dict(verus=["U-TS", "U-SM"], kani=[], bounded=["U-PARSE-B"], findings=[]),
    "C10": dict(verus=["U-TS", "U-MEMV"], kani=["U-MEM"], bounded=["U-PARSE-B"], findings=[]),
    "C11": dict(verus=["U-TS"], kani=[], bounded=["U-PARSE-B"], findings=[("F-C11-1", "verus", "U-TS", "F-C11-1")]),
    "C12": dict(verus=["U-TS"], kani=[], bounded=["U-PARSE-B"], findings=[]),
    "C13": dict(verus=["U-TS", "U-TXT", "U-ENC", "U-SSINK"], kani=["U-ESC"], bounded=["U-PARSE-B"], findings=[]),
    "C14": dict(verus=["U-SM", "U-TS", "U-SER", "U-TXT"], kani=[], bounded=["U-PARSE-B"], findings=[]),
    "C15": dict(verus=["U-SM", "U-TS", "U-SER", "U-NTH", "U-ESCQ", "U-DHS", "U-TXT", "U-TBSV", "U-MEMV", "U-ENC", "U-HVECV", "U-SSINK", "U-ESCT"], kani=["U-MEM", "U-TBS", "U-HVEC", "U-ESC"], bounded=[], findings=[]),
    "C16": dict(verus=["U-SM", "U-TBSV"], kani=["U-SEL", "U-STK"], bounded=["U-PARSE-B"], findings=[]),
}

LEVEL = {p: "proof" for p in PROPS}
