#!/usr/bin/env python3
"""U-PARSE-B: bounded exhaustive execution of the real crate (bounded/src/main.rs) -- a *bounded stand-in*, never counted as a
discharged obligation.  Also the replay engine: a violation comes with the concrete input / chunking / configuration."""
import json
import os
import subprocess
import sys
import time

HERE = os.path.dirname(os.path.abspath(__file__))
ROOT = os.path.dirname(HERE)

PARAMS = {  # property -> (quick: len, cuts), (thorough: len, cuts)
    "C01": ((4, 1), (5, 2)),
    "C02": ((4, 1), (5, 2)),
    "C04": ((4, 0), (5, 0)),
    "C06": ((4, 1), (5, 1)),
    "C08": ((4, 1), (5, 1)),
    "C09": ((3, 1), (4, 2)),
    "C10": ((2, 1), (3, 2)),
    "C11": ((3, 1), (4, 2)),
    "C12": ((4, 1), (5, 2)),
    "C14": ((4, 1), (5, 2)),
}


def run(name, repo="/repo", work=None, tier="quick", prop=None, seed=0):
    t0 = time.time()
    res = dict(status="inconclusive", reason="", cases=0, bound="", violations=[], cmds=[], known_hits=[])
    if prop not in PARAMS:
        res["status"] = "ok"
        res["bound"] = "not applicable to this property"
        return res
    (ql, qc), (tl, tc) = PARAMS[prop]
    ln, cuts = (ql, qc) if tier == "quick" else (tl, tc)
    work = work or os.path.join(ROOT, "build")
    crate = os.path.join(work, "bounded_crate")
    os.makedirs(os.path.join(crate, "src"), exist_ok=True)
    for fn in os.listdir(os.path.join(ROOT, "bounded", "src")):
        open(os.path.join(crate, "src", fn), "w").write(open(os.path.join(ROOT, "bounded", "src", fn)).read())
    ct = open(os.path.join(ROOT, "bounded", "Cargo.toml.in")).read().replace("@REPO@", os.path.abspath(repo))
    open(os.path.join(crate, "Cargo.toml"), "w").write(ct)
    lock = os.path.join(repo, "Cargo.lock")
    if os.path.exists(lock):
        open(os.path.join(crate, "Cargo.lock"), "w").write(open(lock).read())
    target = os.path.join(ROOT, "build", "bounded_target_" + __import__("hashlib").sha1(os.path.abspath(repo).encode()).hexdigest()[:8])
    env = dict(os.environ, CARGO_NET_OFFLINE="true", CARGO_TARGET_DIR=target)
    b = subprocess.run(["cargo", "build", "--release", "--offline", "-q"], cwd=crate, env=env, capture_output=True, text=True)
    if b.returncode != 0:
        res["reason"] = "bounded executor does not build against the current tree: " + b.stderr[-500:]
        return res
    exe = os.path.join(target, "release", "bounded")
    cmd = [exe, prop, str(ln), str(cuts), str(seed)]
    res["cmds"].append(f"bounded {prop} {ln} {cuts}  (built from /verif/bounded against {repo})")
    try:
        p = subprocess.run(cmd, capture_output=True, text=True, timeout=3000)
    except subprocess.TimeoutExpired:
        res["reason"] = "bounded executor timed out"
        return res
    line = p.stdout.strip().split("\n")[-1] if p.stdout.strip() else ""
    try:
        j = json.loads(line)
    except Exception:
        res["reason"] = "bounded executor crashed or printed no report: " + (p.stderr[-400:] or p.stdout[-400:])
        # a panic of the real crate on some input is itself a robustness violation, but we cannot name the input here
        return res
    res["cases"] = j["cases"]
    if "selectors" not in j:
      res["bound"] = f"all strings over the {len(j['alphabet'])}-symbol alphabet {j['alphabet']!r} up to length {j['exhaustive_len']} + {j['seed_documents']} seed documents, every {j['max_cuts']}-cut chunking, 7 handler configurations"
    res["violations"] = [dict(what=v["what"], detail=json.dumps(v)) | v for v in j["violations"]]
    # violations the executor classifies under a known-finding class (reported separately so that they cannot mask others);
    # `check` prints KNOWN-FINDING only if known_findings.json lists a finding identified by that class, otherwise they are
    # ordinary violations
    res["classified"] = {k[len("known_class_"):]: v for k, v in j.items() if k.startswith("known_class_") and v}
    if "selectors" in j:
        res["bound"] = f"{j['selectors']} selectors of the generated grammar sample x all tag sequences over {j['alphabet']} up to length {j['exhaustive_len']} + {j['seed_documents']} seed documents + pseudo-random sequences of 6-12 tokens (1500 quick / 6000 thorough, fixed seed) (independent tree/selector oracle)"
    res["status"] = "ok" if not j["violations"] else "fail"
    res["time_s"] = round(time.time() - t0, 1)
    return res


if __name__ == "__main__":
    r = run("U-PARSE-B", sys.argv[2] if len(sys.argv) > 2 else "/repo", None, sys.argv[3] if len(sys.argv) > 3 else "quick", sys.argv[1])
    print(json.dumps(r, indent=1)[:3000])
