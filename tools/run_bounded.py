#!/usr/bin/env python3
"""U-PARSE-B: bounded exhaustive execution of the real crate (bounded/src/main.rs) -- a *bounded stand-in*, never counted as a
discharged obligation.  Also the replay engine: a violation comes with the concrete input / chunking / configuration."""
import json
import os
import subprocess
import sys
import time

HERE = os.path.dirname(os.path.abspath(__file__))
ROOT = os.path.dirname(HERE)

PARAMS = {  # property -> (quick: len, cuts), (thorough: len, cuts)
    "C01": ((4, 1), (5, 2)),
    "C02": ((4, 1), (5, 2)),
    "C03": ((5, 1), (6, 1)),
    "C04": ((4, 0), (5, 0)),
    "C05": ((4, 0), (5, 0)),
    "C06": ((4, 1), (5, 1)),
    "C07": ((3, 3), (4, 3)),
    "C08": ((4, 1), (5, 1)),
    "C09": ((3, 1), (4, 2)),
    "C10": ((2, 1), (3, 2)),
    "C11": ((3, 1), (4, 2)),
    "C12": ((4, 1), (5, 2)),
    "C13": ((3, 1), (4, 1)),
    "C14": ((4, 1), (5, 2)),
    "C16": ((3, 3), (4, 3)),
}


EXTRA_ENC = {"C01": ["only reads changed the output"], "C14": ["source ranges"], "C16": ["tag_name()", "attribute value is not"]}


def sync_tree(src, dst, items=("src", "Cargo.toml", "Cargo.lock", "build.rs", "README.md", "benches")):
    """content-aware mirror of the crate: a file is rewritten (new mtime) iff its bytes differ, so cargo's mtime-based
    fingerprints are exact even if the tree was edited and restored by a tool that preserves timestamps"""
    os.makedirs(dst, exist_ok=True)
    want = set()
    for it in items:
        sp = os.path.join(src, it)
        if os.path.isfile(sp):
            want.add(it)
        elif os.path.isdir(sp):
            for root, _d, files in os.walk(sp):
                for fn in files:
                    want.add(os.path.relpath(os.path.join(root, fn), src))
    for rel in want:
        a, b = os.path.join(src, rel), os.path.join(dst, rel)
        data = open(a, "rb").read()
        if not os.path.exists(b) or open(b, "rb").read() != data:
            os.makedirs(os.path.dirname(b), exist_ok=True)
            open(b, "wb").write(data)
    for root, _d, files in os.walk(dst):
        for fn in files:
            rel = os.path.relpath(os.path.join(root, fn), dst)
            if rel not in want:
                os.remove(os.path.join(root, fn))


def run(name, repo="/repo", work=None, tier="quick", prop=None, seed=0):
    t0 = time.time()
    res = dict(status="inconclusive", reason="", cases=0, bound="", violations=[], cmds=[], known_hits=[])
    if prop not in PARAMS:
        res["status"] = "ok"
        res["bound"] = "not applicable to this property"
        return res
    (ql, qc), (tl, tc) = PARAMS[prop]
    ln, cuts = (ql, qc) if tier == "quick" else (tl, tc)
    work = work or os.path.join(ROOT, "build")
    crate = os.path.join(ROOT, "build", "bounded_crate_" + __import__("hashlib").sha1(os.path.abspath(repo).encode()).hexdigest()[:8])
    os.makedirs(os.path.join(crate, "src"), exist_ok=True)
    key = __import__("hashlib").sha1(os.path.abspath(repo).encode()).hexdigest()[:8]
    os.makedirs(os.path.join(ROOT, "build"), exist_ok=True)
    lockf = open(os.path.join(ROOT, "build", f"bounded_{key}.lock"), "w")
    __import__("fcntl").flock(lockf, __import__("fcntl").LOCK_EX)   # one sync+build at a time per repo path (checks run concurrently)

    def put(path, text):
        if not os.path.exists(path) or open(path).read() != text:
            open(path, "w").write(text)
    for fn in os.listdir(os.path.join(ROOT, "bounded", "src")):
        put(os.path.join(crate, "src", fn), open(os.path.join(ROOT, "bounded", "src", fn)).read())
    mirror = os.path.join(ROOT, "build", "bounded_src_" + key)
    sync_tree(repo, mirror)
    ct = open(os.path.join(ROOT, "bounded", "Cargo.toml.in")).read().replace("@REPO@", mirror)
    put(os.path.join(crate, "Cargo.toml"), ct)
    lock = os.path.join(repo, "Cargo.lock")
    if os.path.exists(lock):
        put(os.path.join(crate, "Cargo.lock"), open(lock).read())
    target = os.path.join(ROOT, "build", "bounded_target_" + __import__("hashlib").sha1(os.path.abspath(repo).encode()).hexdigest()[:8])
    env = dict(os.environ, CARGO_NET_OFFLINE="true", CARGO_TARGET_DIR=target)
    b = subprocess.run(["cargo", "build", "--release", "--offline", "-q"], cwd=crate, env=env, capture_output=True, text=True)
    if b.returncode != 0:
        res["reason"] = "bounded executor does not build against the current tree: " + b.stderr[-500:]
        return res
    # run a private copy of the binary so that a concurrent rebuild cannot replace it under us
    exe = os.path.join(work, f"bounded_{prop}_{os.getpid()}")
    __import__("shutil").copy(os.path.join(target, "release", "bounded"), exe)
    lockf.close()
    cmd = [exe, prop, str(ln), str(cuts), str(seed)]
    res["cmds"].append(f"bounded {prop} {ln} {cuts}  (built from /verif/bounded against {repo})")
    # the encoding mode (all 36 encodings, text decoder paths) also carries clauses of C01 and C14: run it for them too and keep
    # the violations of their clauses
    extra = None
    if prop in EXTRA_ENC:
        try:
            q = subprocess.run([exe, "C13", "2" if tier == "quick" else "3", "1", str(seed)], capture_output=True, text=True, timeout=3000)
            ej = json.loads(q.stdout.strip().split("\n")[-1])
            extra = dict(cases=ej["cases"], violations=[v for v in ej["violations"] if any(k in v["what"] for k in EXTRA_ENC[prop])])
            res["cmds"].append(f"bounded C13 (encoding mode, clauses of {prop} only)")
        except Exception as e:
            res["reason"] = f"encoding mode of the bounded executor gave no report: {e}"
            return res
    tb_extra = None
    if prop == "C16":
        try:
            q = subprocess.run([exe, "C03", "0", "1", str(seed)], capture_output=True, text=True, timeout=3000)
            tb_extra = json.loads(q.stdout.strip().split("\n")[-1])
            res["cmds"].append("bounded C03 (conformance cases, namespace clause only)")
        except Exception as e:
            res["reason"] = f"conformance mode of the bounded executor gave no report: {e}"
            return res
    try:
        p = subprocess.run(cmd, capture_output=True, text=True, timeout=3000)
    except subprocess.TimeoutExpired:
        res["reason"] = "bounded executor timed out"
        try:
            os.remove(exe)
        except OSError:
            pass
        return res
    try:
        os.remove(exe)
    except OSError:
        pass
    line = p.stdout.strip().split("\n")[-1] if p.stdout.strip() else ""
    try:
        j = json.loads(line)
    except Exception:
        res["reason"] = "bounded executor crashed or printed no report: " + (p.stderr[-400:] or p.stdout[-400:])
        # a panic of the real crate on some input is itself a robustness violation, but we cannot name the input here
        return res
    if j.get("tb_mode"):
        # the namespace_uri clause of the conformance cases belongs to C16, the token clauses to C03
        j = {k: v for k, v in j.items() if k != "known_class_integration_point_ns"}
        j["violations"] = [v for v in j["violations"] if "namespace_uri" not in v["what"]]
    res["cases"] = j["cases"]
    if "selectors" not in j and "encodings" not in j and not j.get("attr_mode") and not j.get("tb_mode") and not j.get("scope_mode"):
      res["bound"] = f"all strings over the {len(j['alphabet'])}-symbol alphabet {j['alphabet']!r} up to length {j['exhaustive_len']} + {j['seed_documents']} seed documents, every {j['max_cuts']}-cut chunking, 7 handler configurations"
    res["violations"] = [dict(what=v["what"], detail=json.dumps(v)) | v for v in j["violations"]]
    # violations the executor classifies under a known-finding class (reported separately so that they cannot mask others);
    # `check` prints KNOWN-FINDING only if known_findings.json lists a finding identified by that class, otherwise they are
    # ordinary violations
    res["classified"] = {k[len("known_class_"):]: v for k, v in j.items() if k.startswith("known_class_") and v}
    if j.get("scope_mode"):
        res["bound"] = f"all tag sequences over {j['alphabet']} up to length {j['exhaustive_len']} + {j['seed_documents']} seed documents + pseudo-random longer ones, each followed by distinct text, x 4 variants (no removal / remove / set_inner_content / remove_and_keep_content on `b`): text!(\"a\") and an on_end_tag handler on every element against a tree oracle"
    if j.get("tb_mode"):
        res["bound"] = f"{j['seed_documents']} hand-derived WHATWG conformance cases (foreign content, integration points, text-type switches), each with and without an element handler, under every 1-cut chunking"
    if j.get("attr_mode"):
        res["bound"] = f"start tags with up to {j['exhaustive_len']} attributes from {j['alphabet']}, every edit script of up to {j['max_cuts']} operations, reads and re-parsed output against a list model; plus every string over `aB= \"\'/` up to length 6 (7 thorough) as the inside of a start tag under every 1-cut chunking, against a reference WHATWG attribute tokenizer; for C07 also every edit script of <= 3 insertions (before/after/prepend/append) + optional replace/remove/remove_and_keep_content/set_inner_content + optional end-tag handler edit against a model of the documented edit algebra"
        keep = {"C16": ("attributes()", "get_attribute", "attributes() /"), "C07": ("re-parsed", "unedited", "after edits", "rewriter failed", "documented edit")}[prop]
        j["violations"] = [v for v in j["violations"] if any(k in v["what"] for k in keep)]
    if "encodings" in j:
        res["bound"] = f"{j['encodings']} ASCII-compatible encodings (all of encoding_rs) x all byte strings over {j['alphabet']} up to length {j['exhaustive_len']} as text / attribute value / comment text x every write boundary, 4 texts of 2600 bytes per encoding (beyond the decoder buffer), inserted strings with unmappable characters, meta-charset switch at every cut (reference: encoding_rs one-shot decoder without BOM handling)"
    if "selectors" in j:
        res["bound"] = f"{j['selectors']} selectors of the generated grammar sample x all tag sequences over {j['alphabet']} up to length {j['exhaustive_len']} + {j['seed_documents']} seed documents + pseudo-random sequences of 6-12 tokens (1500 quick / 6000 thorough, fixed seed) (independent tree/selector oracle)"
    if tb_extra:
        res["cases"] += tb_extra["cases"]
        res["bound"] += "; plus the namespace_uri clause of the WHATWG conformance cases"
        res["violations"] += [dict(what=v["what"], detail=json.dumps(v)) | v for v in tb_extra["violations"] if "namespace_uri" in v["what"]]
        if tb_extra.get("known_class_integration_point_ns"):
            res.setdefault("classified", {})["integration_point_ns"] = tb_extra["known_class_integration_point_ns"]
    if extra:
        res["cases"] += extra["cases"]
        res["bound"] += "; plus the encoding mode: 36 encodings x byte strings up to length " + ("2" if tier == "quick" else "3") + " x every write boundary, long texts"
        res["violations"] += [dict(what=v["what"], detail=json.dumps(v)) | v for v in extra["violations"]]
    res["status"] = "ok" if not res["violations"] else "fail"
    res["time_s"] = round(time.time() - t0, 1)
    return res


if __name__ == "__main__":
    r = run("U-PARSE-B", sys.argv[2] if len(sys.argv) > 2 else "/repo", None, sys.argv[3] if len(sys.argv) > 3 else "quick", sys.argv[1])
    print(json.dumps(r, indent=1)[:3000])
