#!/usr/bin/env python3
"""Confirm a seeded change (tests still pass, demo fails with it and passes without) in a scratch worktree, then run the
registered checks against it by applying it to /repo and undoing it straight afterwards.

usage: seeded_eval.py <seeded-id> <scratch-worktree> [--props C01,C09] [--tier quick] [--skip-confirm]
"""
import json
import os
import subprocess
import sys
import time

ROOT = os.path.dirname(os.path.dirname(os.path.abspath(__file__)))


def sh(cmd, cwd=None, env=None, timeout=3600):
    p = subprocess.run(cmd, cwd=cwd, env=env, shell=isinstance(cmd, str), capture_output=True, text=True, timeout=timeout)
    return p.returncode, p.stdout + p.stderr


def main():
    sid = sys.argv[1]
    wt = sys.argv[2]
    props = None
    tier = "quick"
    skip = "--skip-confirm" in sys.argv
    for i, a in enumerate(sys.argv):
        if a == "--props":
            props = sys.argv[i + 1].split(",")
        if a == "--tier":
            tier = sys.argv[i + 1]
    d = os.path.join(ROOT, "seeded", sid)
    meta = json.load(open(os.path.join(d, "meta.json")))
    patch = os.path.join(d, "patch.diff")
    env = dict(os.environ, CARGO_NET_OFFLINE="true", CARGO_TARGET_DIR=os.path.join(wt, "target"))
    res = meta.get("confirmed", {})
    if not skip:
        sh("git checkout -- src", cwd=wt)
        rc, out = sh(["git", "apply", patch], cwd=wt)
        assert rc == 0, out
        rc, out = sh("cargo test --workspace --offline 2>&1 | grep -E '^test result'", cwd=wt, env=env)
        res["tests_with_change"] = [l for l in out.strip().split("\n") if l]
        tests_ok = all(" 0 failed" in l for l in res["tests_with_change"]) and len(res["tests_with_change"]) >= 3
        demo = os.path.join(wt, "verif_demo")
        os.makedirs(os.path.join(demo, "src"), exist_ok=True)
        open(os.path.join(demo, "Cargo.toml"), "w").write(f'[package]\nname = "verif_demo"\nversion = "0.1.0"\nedition = "2021"\n[dependencies]\nlol_html = {{ path = "{wt}" }}\nencoding_rs = "*"\n')
        sh(["cp", os.path.join(wt, "Cargo.lock"), os.path.join(demo, "Cargo.lock")])
        open(os.path.join(demo, "src", "main.rs"), "w").write(open(os.path.join(d, "demo.rs")).read())
        rc1, out1 = sh("cargo run --offline -q", cwd=demo, env=env)
        if "error" in out1 and "could not compile" in out1:
            # retry without the extra dependency line
            open(os.path.join(demo, "Cargo.toml"), "w").write(f'[package]\nname = "verif_demo"\nversion = "0.1.0"\nedition = "2021"\n[dependencies]\nlol_html = {{ path = "{wt}" }}\n')
            rc1, out1 = sh("cargo run --offline -q", cwd=demo, env=env)
        sh("git checkout -- src", cwd=wt)
        rc0, out0 = sh("cargo run --offline -q", cwd=demo, env=env)
        res.update(tests_pass_with_change=tests_ok, demo_exit_with_change=rc1, demo_exit_without_change=rc0, demo_output_with_change=out1[-600:])
        print(f"[{sid}] tests_ok={tests_ok} demo with={rc1} without={rc0}")
        meta["confirmed"] = res
    # run the checks against /repo with the change applied
    props = props or [meta["property"]]
    det = meta.get("checks", {})
    rc, out = sh(["git", "-C", "/repo", "apply", patch])
    assert rc == 0, out
    try:
        for p in props:
            t0 = time.time()
            rc, out = sh([os.path.join(ROOT, "check"), p, "--tier", tier], cwd=ROOT, timeout=7200)
            lines = [l for l in out.split("\n") if l.startswith("VIOLATION") or l.startswith("INCONCLUSIVE") or l.startswith(p + ":")]
            replays = []
            for l in lines:
                if l.startswith("VIOLATION"):
                    rp = l.split("replay=")[1].split()[0]
                    try:
                        txt = open(rp).read()
                        replays.append(txt[:700])
                    except Exception:
                        pass
            det[p] = dict(exit=rc, tier=tier, lines=lines[:8], replay_heads=replays[:3], wall_s=round(time.time() - t0, 1))
            print(f"[{sid}] check {p}: exit={rc} {lines[:3]}")
    finally:
        sh(["git", "-C", "/repo", "checkout", "--", "."])
    meta["checks"] = det
    json.dump(meta, open(os.path.join(d, "meta.json"), "w"), indent=1)


if __name__ == "__main__":
    main()
