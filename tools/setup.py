#!/usr/bin/env python3
"""Setup after a fresh restore: everything is interpreted (python3) or pre-installed (verus, cargo-kani); this only checks
that the tools answer and creates the scratch directories the checks use."""
import os, subprocess, sys
root = os.path.dirname(os.path.dirname(os.path.abspath(__file__)))
for d in ("build", "evidence", "replays"):
    os.makedirs(os.path.join(root, d), exist_ok=True)
ok = True
for cmd in (["verus", "--version"], ["cargo", "kani", "--version"]):
    try:
        p = subprocess.run(cmd, capture_output=True, text=True, timeout=120)
        print(" ".join(cmd), "->", (p.stdout or p.stderr).strip().splitlines()[0] if (p.stdout or p.stderr).strip() else p.returncode)
    except Exception as e:
        print(" ".join(cmd), "FAILED", e)
        ok = False
sys.exit(0 if ok else 1)
