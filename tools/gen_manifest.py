#!/usr/bin/env python3
"""Writes /verif/MANIFEST.json from tools/config.py (units per property) and the per-property texts below."""
import json
import os
import sys

HERE = os.path.dirname(os.path.abspath(__file__))
ROOT = os.path.dirname(HERE)
sys.path.insert(0, HERE)
import config  # noqa: E402

TECH = "contract-based deductive verification: Verus/Z3 on functions cut mechanically from /repo (contracts spliced at the headers), Kani/CBMC function contracts and full-domain harnesses injected into a scratch copy of the real crate; bounded stand-ins labelled as such"

TEXT = {
 "C01": ("proof",
  "TransformStream::{write,end}, every Dispatcher function on the output path, Arena, the lexeme constructors and emit actions of the Lexer and the token serialisers (raw path) are verified for all inputs against the tiling invariant `sink ++ held-back == written` for an observer-only controller; each state!-generated function and every Lexer/TagScanner action is verified against the register contract that makes lexemes well-formed and tiling. Parser::parse itself (driver loop, tile clause) is verified in U-SM; U-TS uses it through a stub carrying the proved clauses (A-parse-boundary). The text decoder's bookkeeping is verified over an opaque coder (U-TXT: no byte bypasses a pending decoder).",
  "assumes A-parse-boundary (two Verus files: the stub's clauses are the ones proved for the real Parser::parse, not re-checked by the solver), A-enc-roundtrip for text under a text handler, A-impl-glue, std Vec/slice specs, memchr meaning; user handlers are environment"),
 "C02": ("proof",
  "boundary transparency is proved per function: break_on_end_of_input re-bases the cursor by exactly the consumed count, consumed is a function of the registers, Align impls are exact shifts (relational spec), Arena::shift drops exactly the consumed prefix, and every state function re-establishes the register invariant; the relational clause (two chunkings give the same events) is not a unary contract and is covered only by the bounded executor",
  "relational residual not decided deductively; A-parse-loop; A-enc-stream for characters split inside encoding_rs' decoder"),
 "C03": ("proof",
  "tree-builder feedback is never lost: every state function is verified to leave the machine in a state whose text type is the current one (st_type), emit_tag/finish_tag_name/try_get_tree_builder_feedback are verified on the real bodies; the text-type table, the foreign-content exit list, the ambiguity guard (refuses exactly inside select/template-in-select/frameset) and LocalNameHash::update are proved over the full u64 domain by Kani. Equivalence of the ~70 transition tables with the WHATWG tokenizer is not decided deductively; it is checked, bounded, against a reference tokenizer written from the standard (all strings over `<>/!-a= \"'?` up to length 5/6, token sequences inside script / escaped / double-escaped / RCDATA / RAWTEXT / PLAINTEXT contexts, every 1-cut chunking for the short ones). The namespace stack of the tree-builder simulator is verified (U-TBSV: enter pushes exactly, leave pops exactly one, never empty). A list of hand-derived WHATWG conformance cases for foreign content runs in the bounded executor.",
  "WHATWG table equivalence bounded only (reference tokenizer in the bounded executor; attributes' and character references' contents are not compared there); RequestLexeme callbacks are opaque; A-parse-loop; get_feedback_for_start_tag_in_foreign_content / check_integration_point_exit (closures) opaque; known findings F-C03-2 (`<svg/>`), F-C03-3 (`</title>` inside an SVG integration point)"),
 "C04": ("proof",
  "leaf semantics only: NthChild::has_index is proved equal to the CSS An+B definition (exists n >= 0. A*n+B == index) for all i32 triples, with no overflow (Verus, real body, nonlinear lemmas); the six attribute operators with all case modes and first-match case-insensitive attribute lookup are checked against spec functions on bounded strings (Kani, bounded, not counted) DenseHashSet (the set of matched handler ids) insert is proved exact for every u32 id (Verus U-DHS); Stack::get_stack_directive (void / self-closing-in-foreign) is complete over all name hashes (Kani U-STK); the selector compiler, VM and element stack are exercised only by the bounded oracle (322 generated selectors x all tag sequences up to length 4/5 + pseudo-random longer ones, independent CSS/tree oracle).",
  "cssparser/selectors parsing, the selector compiler and the VM's jump/bail-out logic are not under contract (bounded stand-in only); hashbrown maps trusted; known finding F-C04-1 (:not() with a compound argument)"),
 "C05": ("proof",
  "the dispatcher flushes pending text before a tag reaches the controller and calls handle_end once after the last flush (Verus, real bodies); HandlerVec's for_each_active / deactivate / remove_tail call exactly the active handlers once, in the documented order, and keep user_count == sum of item counts (Kani, vector length <= 3, symbolic counts: bounded) Exactly one last-in-text-node chunk per text node (Verus U-TXT); DenseHashSet insert (U-DHS); stack directive (Kani U-STK). Every captured token reaches the handlers whether or not its content is emitted (Verus U-TS, ghost tokens_seen); HandlerVec counters are the sum of their items for any number of handlers (Verus U-HVECV); start/stop_matching balance for every handler combination of one registration (Kani, bounded). Bounded scoping mode in U-PARSE-B: text!(\"a\") and an on_end_tag handler on every element over all tag sequences up to length 4/5 (+ pseudo-random longer ones), with content removal variants, against a tree oracle.",
  "user handlers are environment; which elements match is C04; ContentHandlersDispatcher::{start,stop}_matching composition bounded only"),
 "C06": ("proof",
  "everything one machine hands to the other is in the bookmark (create_bookmark / change_parser_directive / continue_from_bookmark pieces verified), got_flags_from_hint is set iff the scanner really hands the tag to the lexer, feedback is requested once per tag (Skip / ApplyUnhandledFeedback hand-over), and both machines run the same verified state functions under the same text-type invariant; the relational clause (H vs H+O give the same events) is not decided deductively Bounded: selective element/text handlers (scanner with hand-over to the lexer) alone vs together with observers, documents with CDATA in foreign content, every 1-cut chunking.",
  "relational residual bounded only; A-parse-loop"),
 "C07": ("proof",
  "the edit algebra is verified on the real bodies: MutationsInner::{replace,remove}, DynamicString::{push_front,push_back,clear,encode}, the impl_serialize! expansion for Comment/StartTag/EndTag (output == before ++ (self | replacement) ++ after), serialize_self of the three token kinds, every Element content mutator (after/prepend/append/set_inner_content/replace/remove/remove_and_keep_content incl. the void-element no-ops) against an abstract (start-tag edit, end-tag edit) view, and the dispatcher's emission toggling Bounded: every edit script of <= 3 insertions + optional replace/remove/remove_and_keep_content/set_inner_content + optional end-tag-handler edit against a model written from the API documentation.",
  "Element struct reduced to the fields the mutators touch; Mutations::mutate/if_mutated assumed (A-mutate); attribute list serialisation and text chunks abstract; streaming handlers environment; attribute edits (set/remove with duplicates) only through the bounded attribute mode of U-PARSE-B; Element::into_end_tag_handler (closure composition) not under contract"),
 "C08": ("proof",
  "attribute values: escape_double_quotes_only is proved, for every byte string, to emit exactly the input with each `\"` replaced by `&quot;` (Verus, real loop with an inductive invariant), <&Attribute as Serialize>::into_bytes emits name=\"<escaped value>\" and the part between the quotes is proved quote-free, so a value can never close the attribute it is written into; text content: escape_body_text is proved, for every string, to emit exactly the input with `<`, `>`, `&` replaced by `&lt;`, `&gt;`, `&amp;` - the string literals enter the proof with their own bytes (rule R13) - hence no `<` or `>` reaches the output (Verus U-ESCT, real loop); the validators of names / comment text are bounded only (Kani harnesses on short strings, re-parse check of the real crate in U-PARSE-B) Attribute-name validation checked against its specification for all ASCII names of length <= 3 (Kani, bounded).",
  "A-split (std split_at_checked/get(1..) glue replaced by an assumed helper), A-memchr; A-utf8-boundary (positions around an ASCII byte are char boundaries; split_at_checked succeeds exactly there); set_tag_name/set_attribute name validation, Comment::set_text and encoding of inserted content are NOT under a deductive contract (bounded stand-ins only); encoding_rs trusted"),
 "C09": ("proof",
  "consumed == f(registers) (get_consumed_byte_count, break_on_end_of_input), emit actions move lexeme_start to the lexeme end, tag_start is held exactly in the states between '<' and the end of the tag name (st_hold, all 74 state functions), finish_tag_name releases it on every path, and an end of input in a text state holds nothing back (uniform postcondition); write() keeps exactly chunk[consumed..]. Schedule independence is relational and only bounded.",
  "A-parse-loop; look-ahead length bound not stated as a contract"),
 "C10": ("proof",
  "limiter: Ok <=> prev+n <= max and the charge is recorded (Kani function contracts, full usize domain, complete); Arena::append charges exactly the growth before reserving and is unchanged on failure, LimitedVec::push charges capacity*size_of and Drop returns it (Kani, symbolic limit, lengths bounded); Arena's sequence view and the three buffer error exits of write() (Verus, unbounded). One known finding (F-C10-1, ns_stack). Unbounded accounting in Verus (U-MEMV): Arena::append keeps capacity <= charged and charges exactly the missing capacity before reserving it, LimitedVec::push keeps capacity*size_of == charged and Drop returns exactly that, for every length and limit.",
  "A-no-usize-wrap, A-reserve-exact (try_reserve_exact may over-allocate), monotonicity in M relational; bounded heap-growth and combined-limit probes (counting allocator) in U-PARSE-B; A-reserve-exact now also used by U-MEMV (try_reserve_exact assumed exact, as the source's own debug_assert_eq! does), A-vec-cap (capacity unchanged by push/extend within capacity, clear, truncate)"),
 "C11": ("proof",
  "the four error exits of write/end are verified: bail-out handlers run exactly once iff the error's own flag is set (ParsingAmbiguity never), before the raw flush; the flush covers every unemitted received byte; try_produce_token_from_lexeme keeps rcs at the failing lexeme (commit discipline). One known finding (F-C11-1: bytes held by the streaming text decoder are lost).",
  "A-parse-loop; observer-only controller for the byte-exact clause; the documented text-handler exception is modelled by the ghost text_failed"),
 "C12": ("proof",
  "sink protocol as preconditions: handle_chunk requires !finalized, a zero-length chunk sets finalized; every emitting function is verified to keep the sink open, emit_token_bytes (the only path of token bytes) skips empty pieces, finish sends the empty chunk exactly on Ok, Dispatcher::new logs the encoding before any byte, flush_encoding_change logs at the current length HtmlRewriter::{write,end} poisoning (documented panic) under contract. Bounded: a handler failure injected at every call index, graceful and not, checking the zero-length-chunk protocol.",
  "HtmlRewriter's guarded! poisoning not yet under contract; serialisers' pieces abstract (R5 stub into_bytes_v)"),
 "C13": ("proof",
  "dispatcher side: the encoding switch takes effect in flush_encoding_change after the meta tag's token was consumed and the sink is notified before any later byte, Dispatcher::new announces the initial encoding (Verus U-TS); text decoder: over an opaque coder (A-coder) the real feed_text/flush_pending/split_utf8_start loops are verified - no byte bypasses a pending decoder, the decoder never sniffs a BOM, chunk ranges tile the input (Verus U-TXT); UTF-8 width helper complete over all u8 (Kani). Encoder for inserted content: over the same opaque-coder assumption the real TextEncoder::encode loop is verified - the input is covered by consecutive segments, each emitted verbatim only if all its bytes are ASCII, all others handed to the document's encoder in order, nothing skipped or repeated, sink order preserved (Verus U-ENC); the sink given to streaming handlers writes nothing raw while an encoder is installed, including the U+FFFD for a dangling incomplete sequence (Verus U-SSINK). What the coder computes (the 36 encodings) is covered only by the bounded encoding oracle against encoding_rs' one-shot decoder.",
  "A-coder (encoding_rs opaque: consumes a prefix, InputEmpty => all), A-txt-wf (TextDecoder invariant assumed at entry; a Verus limitation blocks re-proving it on the not-last path); A-coder-progress (the `encoding_rs stalled` arm is unreachable only under an assumed progress property of the coder); IncompleteUtf8Resync (streaming UTF-8 writes) not under contract; A-ssink-text (write_body_text opaque)"),
 "C14": ("proof",
  "Lexeme::spanned == (previously_consumed + raw.start, input[raw]); create_lexeme_with_raw* build [lexeme_start, pos(+1)); emit actions tile (lexeme_start' == raw.end); every emitted lexeme is well-formed; Align impls are exact shifts so ranges survive a boundary; SpannedRawBytes::{len,set_modified,original} keep start and length Text-chunk source ranges tile their text node for every decoder behaviour (Verus U-TXT). Bounded: a start tag after 2^32 + 12345 bytes of earlier input (offsets beyond 32 bits) incl. attribute name/value locations.",
  "A-parse-loop (previously_consumed_byte_count += consumed in Parser::parse); text-chunk locations verified in U-TXT (tiling incl. bytes swallowed by the decoder); attribute locations not under contract"),
 "C15": ("proof",
  "for every function under contract Verus proves absence of overflow/underflow, out-of-bounds slicing/indexing, failed unwrap and failed (debug_)assert; in particular the lexer's and scanner's ActionError::internal sites are proved unreachable and the comment-range arithmetic cannot overflow. Kani adds bit-precise full-domain proofs for the limiter, LocalNameHash::update, NthChild::has_index. Decided only for the functions listed in the evidence. Added units: U-NTH, U-ESCQ, U-DHS, U-TXT, U-TBSV (overflow / bounds / unreachable internal asserts in has_index, the escaper, DenseHashSet::insert, the text decoder loop and the namespace stack).",
  "rest of the crate not covered; termination of state functions not proved (exec_allows_no_decreases_clause); stack depth, linear time not addressed"),
 "C16": ("proof",
  "the lexer's token-building actions are verified on the real bodies (ranges from token_part_start..pos, comment range arithmetic, attribute push only for start tags, tag token exists wherever it is used; st_attr: an attribute is under construction exactly in the attribute states of a start tag, so every started attribute is finished before the tag is emitted or parsing is handed over); attribute lookup is first-match ASCII case-insensitive (Kani, bounded) The namespace stack behind namespace_uri()/self-closing handling is verified (U-TBSV); attribute reads/edits run against a list model in the bounded attribute mode. Bounded: every string over `aB= \"'/` up to length 6/7 as the inside of a start tag against a reference WHATWG attribute tokenizer; tag-name reads (lower-casing, exact spelling, after set_tag_name, legacy encodings).",
  "Attributes materialisation, set/remove_attribute and can_have_content not yet under contract; known finding F-C16-1 (namespace_uri of integration-point elements)"),
}


def main():
    checks = []
    for pid in sorted(config.PROPS):
        cat, text, note = TEXT[pid]
        checks.append(dict(
            property_id=pid,
            quick_cmd=f"./check {pid} --tier quick",
            thorough_cmd=f"./check {pid} --tier thorough",
            evidence_file=f"evidence/{pid}.json",
            engine="contracts",
            level_claimed=dict(category=cat, text=text, design_ref="DESIGN.md section 5/" + pid),
            level_note=note,
            technique=TECH,
        ))
    na = [
        dict(property_id="C17", reason="relational equivalence of the C FFI surface with the Rust API over create/use/free histories; raw-pointer ownership, catch_unwind and the thread-local error slot are outside what Verus/Kani contracts can express here (DESIGN.md section 7)"),
        dict(property_id="C18", reason="determinism / thread isolation is a two-run and concurrent property; Kani has no threads, Verus has no model of std atomics/OnceLock; 'no shared mutable state' is an absence claim about statics, not a postcondition (DESIGN.md section 7)"),
    ]
    for pid in ("C04", "C08"):
        if pid not in config.PROPS:
            na.append(dict(property_id=pid, reason="not claimed yet: units under construction"))
    m = dict(
        version=1,
        setup_cmd="python3 tools/setup.py",
        hooks=dict(
            guard="none: no hook is committed to /repo; cfg(kani) is set only by cargo-kani inside a scratch copy made by the checks",
            enable="Verus units cut items out of /repo's working tree (tools/extract.py); Kani groups inject contracts and harness modules into a throw-away copy of it (tools/run_kani.py)",
            baseline_off_cmd="cd /repo && cargo nextest run --workspace --no-fail-fast --offline || cargo test --workspace --no-fail-fast --offline",
            source_commits=[],
            add_only=True,
        ),
        engines=[dict(name="contracts", path="check + tools/ + specs/*.vrs + kani/*.rs", serves_properties=sorted(config.PROPS),
                      kind_free_text="Verus (SMT, unbounded) on mechanically extracted real functions; Kani/CBMC in the real crate")],
        checks=checks,
        notes="fix: commits in /repo: 4af0cc7 (C09), 5531b15 (C03/C06), 1df4192 (C12), f654267 (C14), 2fa405e (C04), 85b408a (C04), b1c9092 (C13); known findings (F-C11-1, F-C04-1, F-C10-1, F-C03-2, F-C03-3, F-C16-1) in known_findings.json; ledger and seeded-change table in DESIGN.md section 0a",
        not_applicable=na,
    )
    json.dump(m, open(os.path.join(ROOT, "MANIFEST.json"), "w"), indent=1)
    print("MANIFEST.json written:", len(checks), "checks")


if __name__ == "__main__":
    main()
