//! U-SEL-B: bounded differential check of selector matching (C04) on the REAL crate: every selector of a generated grammar
//! sample x every tag sequence over a small token alphabet up to a length bound, compared with an independent oracle that
//! evaluates CSS semantics on the tree the explicit tags induce.  Bounded stand-in: never counted as a discharged obligation.
use lol_html::{element, HtmlRewriter, Settings};
use std::cell::RefCell;
use std::rc::Rc;

#[derive(Clone, Debug, PartialEq)]
pub enum Simple {
    Type(&'static str),
    Any,
    Id(&'static str),
    Class(&'static str),
    Attr { name: &'static str, op: Option<(&'static str, &'static str)>, flag: Option<char> },
    Nth { a: i64, b: i64, of_type: bool },
    Not(Vec<Vec<Simple>>),
}
pub type Compound = Vec<Simple>;
#[derive(Clone, Debug)]
pub struct Complex { pub parts: Vec<Compound>, pub combs: Vec<char> }
pub type SelList = Vec<Complex>;

fn simple_str(s: &Simple) -> String {
    match s {
        Simple::Type(n) => n.to_string(),
        Simple::Any => "*".into(),
        Simple::Id(i) => format!("#{i}"),
        Simple::Class(c) => format!(".{c}"),
        Simple::Attr { name, op: None, .. } => format!("[{name}]"),
        Simple::Attr { name, op: Some((op, v)), flag } => format!("[{name}{op}\"{v}\"{}]", flag.map(|f| format!(" {f}")).unwrap_or_default()),
        Simple::Nth { a, b, of_type } => format!(":nth-{}({}n{}{})", if *of_type { "of-type" } else { "child" }, a, if *b < 0 { "-" } else { "+" }, b.abs()),
        Simple::Not(list) => format!(":not({})", list.iter().map(compound_str).collect::<Vec<_>>().join(", ")),
    }
}
fn compound_str(c: &Compound) -> String { c.iter().map(simple_str).collect::<Vec<_>>().join("") }
fn complex_str(c: &Complex) -> String {
    let mut s = compound_str(&c.parts[0]);
    for (i, comb) in c.combs.iter().enumerate() { s.push_str(if *comb == '>' { " > " } else { " " }); s.push_str(&compound_str(&c.parts[i + 1])); }
    s
}
pub fn sel_str(l: &SelList) -> String { l.iter().map(complex_str).collect::<Vec<_>>().join(", ") }

// ---- the oracle ----
#[derive(Clone, Debug)]
pub struct El { pub name: String, pub attrs: Vec<(String, String)>, pub parent: Option<usize>, pub idx: i64, pub idx_of_type: i64 }

fn attr<'a>(e: &'a El, name: &str) -> Option<&'a str> { e.attrs.iter().find(|(n, _)| n.eq_ignore_ascii_case(name)).map(|(_, v)| v.as_str()) }
fn is_ws(c: char) -> bool { matches!(c, ' ' | '\t' | '\n' | '\x0c' | '\r') }

fn match_simple(s: &Simple, els: &[El], i: usize) -> bool {
    let e = &els[i];
    match s {
        Simple::Type(n) => e.name.eq_ignore_ascii_case(n),
        Simple::Any => true,
        Simple::Id(v) => attr(e, "id") == Some(v),
        Simple::Class(c) => attr(e, "class").map_or(false, |v| v.split(is_ws).any(|w| w == *c)),
        Simple::Attr { name, op: None, .. } => attr(e, name).is_some(),
        Simple::Attr { name, op: Some((op, v)), flag } => {
            let ci = *flag == Some('i');
            match attr(e, name) {
                None => false,
                Some(val) => {
                    let (val_c, v_c) = if ci { (val.to_ascii_lowercase(), v.to_ascii_lowercase()) } else { (val.to_string(), v.to_string()) };
                    match *op {
                        "=" => val_c == v_c,
                        "~=" => !v_c.is_empty() && !v_c.contains(is_ws) && val_c.split(is_ws).any(|w| w == v_c),
                        "|=" => val_c == v_c || val_c.starts_with(&format!("{v_c}-")),
                        "^=" => !v_c.is_empty() && val_c.starts_with(&v_c),
                        "$=" => !v_c.is_empty() && val_c.ends_with(&v_c),
                        "*=" => !v_c.is_empty() && val_c.contains(&v_c),
                        _ => unreachable!(),
                    }
                }
            }
        }
        Simple::Nth { a, b, of_type } => {
            let idx = if *of_type { e.idx_of_type } else { e.idx };
            // exists n >= 0: a*n + b == idx
            let d = idx - b;
            if *a == 0 { d == 0 } else { d % a == 0 && d / a >= 0 }
        }
        Simple::Not(list) => !list.iter().any(|c| match_compound(c, els, i)),
    }
}
fn match_compound(c: &Compound, els: &[El], i: usize) -> bool { c.iter().all(|s| match_simple(s, els, i)) }
fn match_complex_from(c: &Complex, k: usize, els: &[El], i: usize) -> bool {
    // parts[k] must match element i, then parts[k-1] must match parent (child) / some ancestor (descendant)
    if !match_compound(&c.parts[k], els, i) { return false; }
    if k == 0 { return true; }
    match c.combs[k - 1] {
        '>' => els[i].parent.map_or(false, |p| match_complex_from(c, k - 1, els, p)),
        _ => { let mut p = els[i].parent; while let Some(q) = p { if match_complex_from(c, k - 1, els, q) { return true; } p = els[q].parent; } false }
    }
}
pub fn oracle_matches(l: &SelList, els: &[El], i: usize) -> bool { l.iter().any(|c| match_complex_from(c, c.parts.len() - 1, els, i)) }

// ---- documents: token lists ----
#[derive(Clone, Copy, Debug)]
pub enum Tok { Start(&'static str), End(&'static str) }
pub const TOKS: &[Tok] = &[
    Tok::Start("<a>"), Tok::Start("<b>"), Tok::Start("<a class=c>"), Tok::Start("<b id=x k=v>"), Tok::End("</a>"), Tok::End("</b>"),
    Tok::Start("<br>"), Tok::Start("<A K=V>"), Tok::Start("<b class=\"d c\" k=\"v-w\">"),
];
pub const SEED_DOCS: &[&[Tok]] = &[
    &[Tok::Start("<svg>"), Tok::Start("<a/>"), Tok::Start("<b>"), Tok::End("</b>"), Tok::Start("<a>"), Tok::End("</svg>"), Tok::Start("<a>")],
    &[Tok::Start("<a>"), Tok::Start("<a/>"), Tok::Start("<b>"), Tok::Start("<b>"), Tok::End("</a>"), Tok::Start("<b>")],
    &[Tok::Start("<b>"), Tok::Start("<a>"), Tok::End("</a>"), Tok::Start("<a>"), Tok::End("</a>"), Tok::Start("<a class=c>"), Tok::End("</a>"), Tok::Start("<b>"), Tok::End("</b>"), Tok::Start("<a>"), Tok::End("</x>"), Tok::End("</b>"), Tok::Start("<a>")],
    &[Tok::Start("<svg>"), Tok::Start("<link>"), Tok::Start("<a>"), Tok::End("</a>"), Tok::End("</link>"), Tok::Start("<a>"), Tok::End("</svg>"), Tok::Start("<link>"), Tok::Start("<a>")],
    &[Tok::Start("<a>"), Tok::Start("<b k=\"V w\">"), Tok::Start("<b k=\"w v\">"), Tok::Start("<b k=vw>"), Tok::Start("<b k=\"\">"), Tok::Start("<b k>"), Tok::Start("<b id=X class=C>"), Tok::Start("<b k=v k=zz>")],
];
const VOID: &[&str] = &["area", "base", "br", "col", "embed", "hr", "img", "input", "link", "meta", "source", "track", "wbr"];

fn parse_start(t: &str) -> (String, Vec<(String, String)>, bool) {
    // "<name attr=val attr="v w" attr/>"  (generated tokens only)
    let inner = &t[1..t.len() - 1];
    let (inner, selfc) = if let Some(s) = inner.strip_suffix('/') { (s, true) } else { (inner, false) };
    let mut name = String::new();
    let mut rest = "";
    for (i, ch) in inner.char_indices() { if ch == ' ' { name = inner[..i].to_string(); rest = &inner[i + 1..]; break; } }
    if name.is_empty() { name = inner.to_string(); }
    let mut attrs = vec![];
    let b = rest.as_bytes();
    let mut i = 0;
    while i < b.len() {
        while i < b.len() && b[i] == b' ' { i += 1; }
        let s = i;
        while i < b.len() && b[i] != b'=' && b[i] != b' ' { i += 1; }
        if s == i { break; }
        let n = rest[s..i].to_string();
        let mut v = String::new();
        if i < b.len() && b[i] == b'=' {
            i += 1;
            if i < b.len() && b[i] == b'"' { let s2 = i + 1; i = s2; while b[i] != b'"' { i += 1; } v = rest[s2..i].to_string(); i += 1; }
            else { let s2 = i; while i < b.len() && b[i] != b' ' { i += 1; } v = rest[s2..i].to_string(); }
        }
        if !attrs.iter().any(|(an, _): &(String, String)| an.eq_ignore_ascii_case(&n)) { attrs.push((n, v)); }
    }
    (name, attrs, selfc)
}

/// builds the element list (one entry per start tag, in order) of the tree the explicit tags induce; `foreign[i]` says whether
/// start tag i is in a foreign (non-HTML) namespace -- taken from the rewriter's own report, it is C03's subject, not C04's
pub fn build_tree(doc: &[Tok], foreign: &[bool]) -> Vec<El> {
    let mut els: Vec<El> = vec![];
    let mut open: Vec<usize> = vec![];
    let mut child_count: Vec<(i64, Vec<(String, i64)>)> = vec![(0, vec![])]; // per open level (root = level 0)
    for t in doc {
        match t {
            Tok::Start(s) => {
                let (name, attrs, selfc) = parse_start(s);
                let lname = name.to_ascii_lowercase();
                let lvl = child_count.last_mut().unwrap();
                lvl.0 += 1;
                let idx = lvl.0;
                let ot = if let Some(e) = lvl.1.iter_mut().find(|(n, _)| *n == lname) { e.1 += 1; e.1 } else { lvl.1.push((lname.clone(), 1)); 1 };
                let i = els.len();
                els.push(El { name: lname.clone(), attrs, parent: open.last().copied(), idx, idx_of_type: ot });
                let is_foreign = foreign.get(i).copied().unwrap_or(false);
                let closed_now = if is_foreign { selfc } else { VOID.contains(&lname.as_str()) };
                if !closed_now { open.push(i); child_count.push((0, vec![])); }
            }
            Tok::End(s) => {
                let name = s[2..s.len() - 1].to_ascii_lowercase();
                if let Some(pos) = open.iter().rposition(|&i| els[i].name == name) { open.truncate(pos); child_count.truncate(pos + 1); }
            }
        }
    }
    els
}

// ---- the grammar sample ----
pub fn selectors() -> Vec<SelList> {
    use Simple::*;
    let at = |name, op, v, flag| Attr { name, op: Some((op, v)), flag };
    let non_type: Vec<Simple> = vec![
        Id("x"), Id("X"), Class("c"), Class("C"), Attr { name: "k", op: None, flag: None }, Attr { name: "K", op: None, flag: None },
        at("k", "=", "v", None), at("k", "=", "V", None), at("k", "=", "V", Some('i')), at("k", "=", "v", Some('s')), at("k", "~=", "v", None), at("k", "~=", "W", Some('i')),
        at("k", "|=", "v", None), at("k", "^=", "v", None), at("k", "$=", "w", None), at("k", "*=", "-", None), at("k", "*=", "", None), at("k", "^=", "", None), at("k", "$=", "", None), at("k", "~=", "", None), at("k", "|=", "", None), at("k", "=", "", None), at("class", "~=", "c", None),
        Nth { a: 0, b: 1, of_type: false }, Nth { a: 0, b: 2, of_type: false }, Nth { a: 2, b: 1, of_type: false }, Nth { a: -1, b: 2, of_type: false }, Nth { a: 2, b: 0, of_type: false },
        Nth { a: 1, b: -2147483647, of_type: false }, Nth { a: 0, b: 2, of_type: true }, Nth { a: 0, b: 1, of_type: true }, Nth { a: 2, b: 1, of_type: true },
        Not(vec![vec![Type("a")]]), Not(vec![vec![Class("c")]]), Not(vec![vec![Type("a")], vec![Class("c")]]), Not(vec![vec![Nth { a: 0, b: 2, of_type: false }]]),
        Not(vec![vec![Not(vec![vec![Type("a")]])]]), Not(vec![vec![at("k", "=", "v", None)]]),
        // compound argument: negates the whole compound
        Not(vec![vec![Type("a"), Class("c")]]), Not(vec![vec![Type("b"), at("k", "=", "v", None)]]),
    ];
    let mut compounds: Vec<Compound> = vec![vec![Type("a")], vec![Type("b")], vec![Type("A")], vec![Any], vec![Type("br")], vec![Type("svg")]];
    for s in &non_type { compounds.push(vec![s.clone()]); }
    for t in [Type("a"), Type("b"), Any] { for s in &non_type { compounds.push(vec![t.clone(), s.clone()]); } }
    compounds.push(vec![Class("c"), Class("d")]);
    compounds.push(vec![Type("b"), Id("x"), at("k", "=", "v", None)]);
    let mut out: Vec<SelList> = compounds.iter().map(|c| vec![Complex { parts: vec![c.clone()], combs: vec![] }]).collect();
    let left: Vec<Compound> = vec![vec![Type("a")], vec![Type("b")], vec![Class("c")], vec![Any], vec![Type("a"), Nth { a: 0, b: 1, of_type: false }], vec![Not(vec![vec![Type("a")]])], vec![Type("svg")]];
    let right: Vec<Compound> = vec![vec![Type("a")], vec![Type("b")], vec![Any], vec![Class("c")], vec![Nth { a: 0, b: 2, of_type: false }], vec![Nth { a: 0, b: 1, of_type: true }], vec![Not(vec![vec![Class("c")]])],
        vec![Type("b"), at("k", "=", "v", None)], vec![Not(vec![vec![Type("a"), Class("c")]])], vec![Type("br")]];
    for l in &left { for comb in [' ', '>'] { for r in &right { out.push(vec![Complex { parts: vec![l.clone(), r.clone()], combs: vec![comb] }]); } } }
    for combs in [[' ', ' '], ['>', '>'], ['>', ' '], [' ', '>']] {
        out.push(vec![Complex { parts: vec![vec![Type("a")], vec![Type("b")], vec![Type("a")]], combs: combs.to_vec() }]);
        out.push(vec![Complex { parts: vec![vec![Any], vec![Type("a")], vec![Any]], combs: combs.to_vec() }]);
        out.push(vec![Complex { parts: vec![vec![Type("b")], vec![Type("b")], vec![Class("c")]], combs: combs.to_vec() }]);
    }
    // lists
    out.push(vec![Complex { parts: vec![vec![Type("a")]], combs: vec![] }, Complex { parts: vec![vec![Class("c")]], combs: vec![] }]);
    out.push(vec![Complex { parts: vec![vec![Type("a")], vec![Type("b")]], combs: vec!['>'] }, Complex { parts: vec![vec![Id("x")]], combs: vec![] }]);
    out
}

pub struct SelReport { pub cases: u64, pub selectors: usize, pub unsupported: Vec<String>, pub violations: Vec<String>, pub not_compound: Vec<String> }

fn run_batch(doc_bytes: &[u8], sels: &[(usize, String)], with_star: bool) -> Result<(Vec<(String, Vec<(String, String)>, bool)>, Vec<(usize, usize)>), String> {
    // returns (per start tag: name, attrs, foreign) and the (selector index, start-tag ordinal) pairs that fired
    let info = Rc::new(RefCell::new(vec![]));
    let fired = Rc::new(RefCell::new(vec![]));
    let ordinal = Rc::new(RefCell::new(0usize));
    let mut settings = Settings::new();
    if with_star {
        let (i2, o2) = (info.clone(), ordinal.clone());
        settings = settings.append_element_content_handler(element!("*", move |el| {
            *o2.borrow_mut() += 1;
            let attrs: Vec<(String, String)> = el.attributes().iter().map(|a| (a.name(), a.value())).collect();
            i2.borrow_mut().push((el.tag_name(), attrs, el.namespace_uri() != "http://www.w3.org/1999/xhtml"));
            Ok(())
        }));
    }
    for (idx, s) in sels {
        let (f2, o2, idx) = (fired.clone(), ordinal.clone(), *idx);
        let sel: lol_html::Selector = s.parse().map_err(|e| format!("{s}: {e}"))?;
        settings = settings.append_element_content_handler((std::borrow::Cow::Owned(sel), lol_html::ElementContentHandlers::default().element(move |_el: &mut lol_html::html_content::Element<'_, '_>| {
            f2.borrow_mut().push((idx, *o2.borrow()));
            Ok(())
        })));
    }
    let mut rw = HtmlRewriter::new(settings, |_: &[u8]| {});
    rw.write(doc_bytes).map_err(|e| format!("write: {e}"))?;
    rw.end().map_err(|e| format!("end: {e}"))?;
    let i = info.borrow().clone();
    let f = fired.borrow().clone();
    Ok((i, f))
}

fn doc_bytes(doc: &[Tok]) -> Vec<u8> {
    let mut v = vec![];
    for t in doc { match t { Tok::Start(s) | Tok::End(s) => v.extend_from_slice(s.as_bytes()) } v.extend_from_slice(b"t"); }
    v
}

pub fn check_doc(doc: &[Tok], sels: &[(SelList, String)], batch: usize, rep: &mut SelReport) {
    let bytes = doc_bytes(doc);
    let n_starts = doc.iter().filter(|t| matches!(t, Tok::Start(_))).count();
    let mut els: Option<Vec<El>> = None;
    for chunk_start in (0..sels.len()).step_by(batch) {
        let chunk: Vec<(usize, String)> = (chunk_start..(chunk_start + batch).min(sels.len())).map(|i| (i, sels[i].1.clone())).collect();
        rep.cases += 1;
        let (info, fired) = match run_batch(&bytes, &chunk, true) { Ok(x) => x, Err(e) => { if rep.violations.len() < 5 { rep.violations.push(viol("rewriter failed", &bytes, "", &e)); } return; } };
        if info.len() != n_starts { if rep.violations.len() < 5 { rep.violations.push(viol("`*` handler did not run once per start tag", &bytes, "*", &format!("{} of {}", info.len(), n_starts))); } return; }
        if els.is_none() {
            let foreign: Vec<bool> = info.iter().map(|x| x.2).collect();
            els = Some(build_tree(doc, &foreign));
        }
        let els = els.as_ref().unwrap();
        for (si, _) in &chunk {
            let got: Vec<usize> = fired.iter().filter(|(i, _)| i == si).map(|(_, o)| *o - 1).collect();
            let want: Vec<usize> = (0..els.len()).filter(|&e| oracle_matches(&sels[*si].0, els, e)).collect();
            if got != want {
                if has_not_compound(&sels[*si].0) {
                    if rep.not_compound.len() < 3 { rep.not_compound.push(viol(":not() with a compound argument does not negate the whole compound", &bytes, &sels[*si].1, &format!("got start-tag ordinals {:?}, oracle {:?}", got, want))); }
                } else if rep.violations.len() < 5 {
                    rep.violations.push(viol("selector handler ran for a different set of start tags than CSS semantics select", &bytes, &sels[*si].1, &format!("got start-tag ordinals {:?}, oracle {:?}", got, want)));
                }
            }
        }
    }
}

/// independence from the other registered selectors: each selector alone (no `*`, no batch) fires as often as in the batch
pub fn check_independence(doc: &[Tok], sels: &[(SelList, String)], which: &[usize], rep: &mut SelReport) {
    let bytes = doc_bytes(doc);
    let all: Vec<(usize, String)> = which.iter().map(|&i| (i, sels[i].1.clone())).collect();
    let Ok((_, fired_all)) = run_batch(&bytes, &all, true) else { return };
    for &i in which {
        rep.cases += 1;
        let Ok((_, alone)) = run_batch(&bytes, &[(i, sels[i].1.clone())], false) else { continue };
        let n_all = fired_all.iter().filter(|(j, _)| *j == i).count();
        if alone.len() != n_all && rep.violations.len() < 5 {
            rep.violations.push(viol("match count depends on which other selectors are registered", &bytes, &sels[i].1, &format!("alone {} together {}", alone.len(), n_all)));
        }
    }
}

fn viol(what: &str, doc: &[u8], sel: &str, detail: &str) -> String {
    format!("{{\"what\":{:?},\"input\":{:?},\"selector\":{:?},\"detail\":{:?}}}", what, String::from_utf8_lossy(doc), sel, detail)
}
/// does the selector contain `:not()` with a compound (more than one simple selector) argument?  (class of known finding F-C04-1)
fn has_not_compound(l: &SelList) -> bool {
    fn in_simple(s: &Simple) -> bool { match s { Simple::Not(list) => list.iter().any(|c| c.len() > 1 || c.iter().any(in_simple)), _ => false } }
    l.iter().any(|c| c.parts.iter().any(|p| p.iter().any(in_simple)))
}

pub fn run_c04(max_len: usize) -> SelReport {
    let mut rep = SelReport { cases: 0, selectors: 0, unsupported: vec![], violations: vec![], not_compound: vec![] };
    let mut sels: Vec<(SelList, String)> = vec![];
    for l in selectors() {
        let s = sel_str(&l);
        match s.parse::<lol_html::Selector>() { Ok(_) => sels.push((l, s)), Err(e) => rep.unsupported.push(format!("{s}: {e}")) }
    }
    rep.selectors = sels.len();
    let mut doc: Vec<Tok> = vec![];
    fn rec(doc: &mut Vec<Tok>, max_len: usize, sels: &[(SelList, String)], rep: &mut SelReport) {
        if !doc.is_empty() { check_doc(doc, sels, 24, rep); }
        if doc.len() == max_len || rep.violations.len() >= 5 { return; }
        for t in TOKS { doc.push(*t); rec(doc, max_len, sels, rep); doc.pop(); }
    }
    rec(&mut doc, max_len, &sels, &mut rep);
    // pseudo-random longer tag sequences (fixed LCG seed: deterministic), mis-nesting included
    let mut x: u64 = 0x9E3779B97F4A7C15;
    let n_random = if max_len >= 5 { 6000 } else { 1500 };
    for _ in 0..n_random {
        let mut next = || { x = x.wrapping_mul(6364136223846793005).wrapping_add(1442695040888963407); (x >> 33) as usize };
        let len = 6 + next() % 7;
        let d: Vec<Tok> = (0..len).map(|_| TOKS[next() % TOKS.len()]).collect();
        if rep.violations.len() < 5 { check_doc(&d, &sels, 24, &mut rep); }
    }
    for d in SEED_DOCS {
        check_doc(d, &sels, 24, &mut rep);
        check_doc(d, &sels, 1, &mut rep);
        let which: Vec<usize> = (0..sels.len()).collect();
        check_independence(d, &sels, &which, &mut rep);
    }
    rep
}

// ---- C05: scoped text handlers and end-tag handlers, also inside removed content ----
#[derive(Clone, Copy, PartialEq, Debug)]
pub enum Removal { None, Remove, SetInner, RemoveKeep }

/// Oracle: walks the token list; returns (for every text position the expected "inside an open `a`" flag,
/// for every End token the ordinals of the start tags it closes, innermost first)
fn scope_oracle(doc: &[Tok], foreign: &[bool]) -> (Vec<bool>, Vec<Vec<usize>>) {
    let mut open: Vec<(usize, String)> = vec![];
    let mut text_in_a = vec![];
    let mut closes = vec![];
    let mut ord = 0usize;
    for t in doc {
        match t {
            Tok::Start(s) => {
                let (name, _attrs, selfc) = parse_start(s);
                let lname = name.to_ascii_lowercase();
                let is_foreign = foreign.get(ord).copied().unwrap_or(false);
                let closed_now = if is_foreign { selfc } else { VOID.contains(&lname.as_str()) };
                if !closed_now { open.push((ord, lname)); }
                ord += 1;
                closes.push(vec![]);
            }
            Tok::End(s) => {
                let name = s[2..s.len() - 1].to_ascii_lowercase();
                let mut c = vec![];
                if let Some(pos) = open.iter().rposition(|(_, n)| *n == name) { while open.len() > pos { c.push(open.pop().unwrap().0); } }
                closes.push(c);
            }
        }
        text_in_a.push(open.iter().any(|(_, n)| n == "a"));
    }
    (text_in_a, closes)
}

pub fn check_scoping(doc: &[Tok], removal: Removal, rep: &mut SelReport) {
    // document: each token followed by a distinct text "t<i>;"
    let mut bytes = vec![];
    for (i, t) in doc.iter().enumerate() { match t { Tok::Start(s) | Tok::End(s) => bytes.extend_from_slice(s.as_bytes()) } bytes.extend_from_slice(format!("t{i};").as_bytes()); }
    let ev: Rc<RefCell<Vec<String>>> = Rc::new(RefCell::new(vec![]));
    let info = Rc::new(RefCell::new(vec![]));
    let ordinal = Rc::new(RefCell::new(0usize));
    let (e1, e2, e3, i1, o1) = (ev.clone(), ev.clone(), ev.clone(), info.clone(), ordinal.clone());
    let acc = Rc::new(RefCell::new(String::new()));
    let a2 = acc.clone();
    let mut settings = Settings::new()
        .append_element_content_handler(element!("*", move |el| {
            let n = { let mut o = o1.borrow_mut(); *o += 1; *o - 1 };
            i1.borrow_mut().push(el.namespace_uri() != "http://www.w3.org/1999/xhtml");
            e1.borrow_mut().push(format!("S{n}"));
            let e4 = e2.clone();
            if el.can_have_content() { el.on_end_tag(lol_html::end_tag!(move |_e| { e4.borrow_mut().push(format!("E{n}")); Ok(()) }))?; }
            Ok(())
        }))
        .append_element_content_handler(lol_html::text!("a", move |t| {
            a2.borrow_mut().push_str(t.as_str());
            if t.last_in_text_node() { let s = std::mem::take(&mut *a2.borrow_mut()); e3.borrow_mut().push(format!("T{s}")); }
            Ok(())
        }));
    if removal != Removal::None {
        settings = settings.append_element_content_handler(element!("b", move |el| {
            match removal { Removal::Remove => el.remove(), Removal::SetInner => el.set_inner_content("[i]", lol_html::html_content::ContentType::Html), Removal::RemoveKeep => el.remove_and_keep_content(), Removal::None => {} }
            Ok(())
        }));
    }
    rep.cases += 1;
    {
        let mut rw = HtmlRewriter::new(settings, |_: &[u8]| {});
        if rw.write(&bytes).is_err() || rw.end().is_err() { if rep.violations.len() < 5 { rep.violations.push(viol("rewriter failed", &bytes, "", "")); } return; }
    }
    let foreign = info.borrow().clone();
    let (text_in_a, closes) = scope_oracle(doc, &foreign);
    // expected event list
    let mut want: Vec<String> = vec![];
    let mut ord = 0;
    for (i, t) in doc.iter().enumerate() {
        match t { Tok::Start(_) => { want.push(format!("S{ord}")); ord += 1; } Tok::End(_) => { for c in &closes[i] { want.push(format!("E{c}")); } } }
        if text_in_a[i] { want.push(format!("Tt{i};")); }
    }
    let got = ev.borrow().clone();
    if got != want && rep.violations.len() < 5 {
        rep.violations.push(viol("scoped text / end-tag handlers did not fire exactly once, in document order, for exactly their scope", &bytes, &format!("text!(\"a\"), on_end_tag on every element, `b` elements: {:?}", removal), &format!("got {:?} want {:?}", got, want)));
    }
}

pub fn run_c05(max_len: usize) -> SelReport {
    let mut rep = SelReport { cases: 0, selectors: 0, unsupported: vec![], violations: vec![], not_compound: vec![] };
    let mut doc: Vec<Tok> = vec![];
    fn rec(doc: &mut Vec<Tok>, max_len: usize, rep: &mut SelReport) {
        if !doc.is_empty() { for r in [Removal::None, Removal::Remove, Removal::SetInner, Removal::RemoveKeep] { check_scoping(doc, r, rep); } }
        if doc.len() == max_len || rep.violations.len() >= 5 { return; }
        for t in TOKS { doc.push(*t); rec(doc, max_len, rep); doc.pop(); }
    }
    rec(&mut doc, max_len, &mut rep);
    for d in SEED_DOCS { for r in [Removal::None, Removal::Remove, Removal::SetInner, Removal::RemoveKeep] { check_scoping(d, r, &mut rep); } }
    let mut x: u64 = 0x2545F4914F6CDD1D;
    for _ in 0..(if max_len >= 5 { 4000 } else { 1000 }) {
        let mut next = || { x = x.wrapping_mul(6364136223846793005).wrapping_add(1442695040888963407); (x >> 33) as usize };
        let len = 6 + next() % 7;
        let d: Vec<Tok> = (0..len).map(|_| TOKS[next() % TOKS.len()]).collect();
        for r in [Removal::None, Removal::Remove, Removal::SetInner, Removal::RemoveKeep] { if rep.violations.len() < 5 { check_scoping(&d, r, &mut rep); } }
    }
    rep
}
