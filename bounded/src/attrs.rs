//! U-ATTR-B: bounded check of attribute reads and edits on one start tag (C16 reads, C07 edits) on the REAL crate against a
//! list model: lookup is first-match ASCII case-insensitive, set_attribute replaces the first match or appends, remove_attribute
//! removes every match, reads after edits reflect them, and the re-parsed output shows exactly the model's list.
//! Bounded stand-in: never counted as a discharged obligation.
use lol_html::{element, HtmlRewriter, Settings};
use std::cell::RefCell;
use std::rc::Rc;

const PIECES: &[(&str, &str, &str)] = &[
    // (source text, name as written, value)
    ("a=1", "a", "1"), ("A=2", "A", "2"), ("b", "b", ""), ("b=3", "b", "3"), ("c='x y'", "c", "x y"), ("a=\"4\"", "a", "4"),
];
#[derive(Clone, Copy, Debug)]
enum Op { Set(&'static str, &'static str), Remove(&'static str) }
const OPS: &[Op] = &[Op::Set("a", "N"), Op::Set("B", "M"), Op::Set("d", "Q\"q"), Op::Remove("a"), Op::Remove("B"), Op::Remove("z")];
const PROBES: &[&str] = &["a", "A", "b", "c", "d", "z"];

type Model = Vec<(String, String)>; // (lowercased name, value) in order; duplicates possible

fn m_find(m: &Model, n: &str) -> Option<usize> { m.iter().position(|(k, _)| k.eq_ignore_ascii_case(n)) }
fn m_apply(m: &mut Model, op: Op) {
    match op {
        Op::Set(n, v) => match m_find(m, n) { Some(i) => m[i].1 = v.to_string(), None => m.push((n.to_ascii_lowercase(), v.to_string())) },
        Op::Remove(n) => m.retain(|(k, _)| !k.eq_ignore_ascii_case(n)),
    }
}

#[derive(Default, Clone)]
struct Obs { list_before: Model, removed: Vec<bool>, gets: Vec<(Option<String>, bool)>, list_after: Model }

fn run(tag: &str, script: &[Op]) -> Result<(Obs, Vec<u8>), String> {
    let obs = Rc::new(RefCell::new(Obs::default()));
    let o2 = obs.clone();
    let script: Vec<Op> = script.to_vec();
    let out = Rc::new(RefCell::new(vec![]));
    let out2 = out.clone();
    let settings = Settings::new().append_element_content_handler(element!("x", move |el| {
        let mut o = o2.borrow_mut();
        o.list_before = el.attributes().iter().map(|a| (a.name(), a.value())).collect();
        for op in &script {
            match *op {
                Op::Set(n, v) => { el.set_attribute(n, v)?; }
                Op::Remove(n) => { let had = el.has_attribute(n); el.remove_attribute(n); o.removed.push(had); }
            }
        }
        for p in PROBES { o.gets.push((el.get_attribute(p), el.has_attribute(p))); }
        o.list_after = el.attributes().iter().map(|a| (a.name(), a.value())).collect();
        Ok(())
    }));
    let mut rw = HtmlRewriter::new(settings, move |c: &[u8]| out2.borrow_mut().extend_from_slice(c));
    rw.write(tag.as_bytes()).map_err(|e| e.to_string())?;
    rw.end().map_err(|e| e.to_string())?;
    let o = obs.borrow().clone();
    let b = out.borrow().clone();
    Ok((o, b))
}

fn reparse(doc: &[u8]) -> Model {
    let l = Rc::new(RefCell::new(vec![]));
    let l2 = l.clone();
    let settings = Settings::new().append_element_content_handler(element!("x", move |el| { *l2.borrow_mut() = el.attributes().iter().map(|a| (a.name(), a.value())).collect(); Ok(()) }));
    let mut rw = HtmlRewriter::new(settings, |_: &[u8]| {});
    let _ = rw.write(doc);
    let _ = rw.end();
    let r = l.borrow().clone();
    r
}

// ---- odd attribute syntax: reference tokenizer for the inside of a start tag (WHATWG 13.2.5.32 - 13.2.5.40) ----
fn ref_parse(s: &[u8]) -> Option<(Model, bool)> {
    #[derive(PartialEq)]
    enum St { BeforeName, Name, AfterName, BeforeValue, Dq, Sq, Unq, AfterQuoted, SelfClosing }
    let mut st = St::BeforeName;
    let mut attrs: Model = vec![];
    let mut input: Vec<u8> = s.to_vec();
    input.push(b'>');
    let mut i = 0;
    let ws = |c: u8| matches!(c, b' ' | b'\t' | b'\n' | b'\x0c' | b'\r');
    while i < input.len() {
        let c = input[i];
        match st {
            St::BeforeName => {
                if ws(c) { i += 1; } else if c == b'/' { st = St::SelfClosing; i += 1; } else if c == b'>' { return Some((attrs, false)); }
                else if c == b'=' { attrs.push(("=".into(), String::new())); st = St::Name; i += 1; }
                else { attrs.push((String::new(), String::new())); st = St::Name; }
            }
            St::Name => {
                if ws(c) || c == b'/' || c == b'>' { st = St::AfterName; } else if c == b'=' { st = St::BeforeValue; i += 1; }
                else { attrs.last_mut().unwrap().0.push(c.to_ascii_lowercase() as char); i += 1; }
            }
            St::AfterName => {
                if ws(c) { i += 1; } else if c == b'/' { st = St::SelfClosing; i += 1; } else if c == b'=' { st = St::BeforeValue; i += 1; }
                else if c == b'>' { return Some((attrs, false)); } else { attrs.push((String::new(), String::new())); st = St::Name; }
            }
            St::BeforeValue => {
                if ws(c) { i += 1; } else if c == b'"' { st = St::Dq; i += 1; } else if c == b'\'' { st = St::Sq; i += 1; }
                else if c == b'>' { return Some((attrs, false)); } else { st = St::Unq; }
            }
            St::Dq => { if c == b'"' { st = St::AfterQuoted; } else { attrs.last_mut().unwrap().1.push(c as char); } i += 1; }
            St::Sq => { if c == b'\'' { st = St::AfterQuoted; } else { attrs.last_mut().unwrap().1.push(c as char); } i += 1; }
            St::Unq => { if ws(c) { st = St::BeforeName; i += 1; } else if c == b'>' { return Some((attrs, false)); } else { attrs.last_mut().unwrap().1.push(c as char); i += 1; } }
            St::AfterQuoted => { if ws(c) { st = St::BeforeName; i += 1; } else if c == b'/' { st = St::SelfClosing; i += 1; } else if c == b'>' { return Some((attrs, false)); } else { st = St::BeforeName; } }
            St::SelfClosing => { if c == b'>' { return Some((attrs, true)); } else { st = St::BeforeName; } }
        }
    }
    None // the tag is never closed (unterminated quote): no start tag token
}

const SYNTAX: &[u8] = b"aB= \"'/";

pub fn run_syntax(max_len: usize, rep: &mut AttrReport) {
    fn rec(buf: &mut Vec<u8>, max_len: usize, rep: &mut AttrReport) {
        if rep.violations.len() >= 5 { return; }
        let mut doc = b"<x ".to_vec();
        doc.extend_from_slice(buf);
        doc.push(b'>');
        let want = ref_parse(buf);
        // every 1-cut chunking of the tag
        for cut in std::iter::once(None).chain((1..doc.len()).map(Some)) {
            rep.cases += 1;
            let seen = std::rc::Rc::new(std::cell::RefCell::new(vec![]));
            let s2 = seen.clone();
            let settings = Settings::new().append_element_content_handler(element!("x", move |el| {
                s2.borrow_mut().push((el.attributes().iter().map(|a| (a.name(), a.value())).collect::<Model>(), el.is_self_closing()));
                Ok(())
            }));
            let mut rw = HtmlRewriter::new(settings, |_: &[u8]| {});
            let ok = match cut { Some(c) => rw.write(&doc[..c]).is_ok() && rw.write(&doc[c..]).is_ok(), None => rw.write(&doc).is_ok() } && rw.end().is_ok();
            let got = seen.borrow().clone();
            let want_v: Vec<(Model, bool)> = want.clone().into_iter().collect();
            if !ok || got != want_v {
                if rep.violations.len() < 5 {
                    rep.violations.push(format!("{{\"what\":\"attributes() / is_self_closing() differ from the syntactic attributes of the tag (reference: WHATWG attribute states)\",\"input\":{:?},\"cuts\":{},\"detail\":{:?}}}", String::from_utf8_lossy(&doc), cut.map_or("null".to_string(), |c| format!("[{c}]")), format!("got {:?} want {:?}", got, want_v)));
                }
                return;
            }
        }
        if buf.len() == max_len { return; }
        for &c in SYNTAX { buf.push(c); rec(buf, max_len, rep); buf.pop(); }
    }
    rec(&mut vec![], max_len, rep);
}

// ---- tag names: lower-casing, exact spelling, reads after set_tag_name, the end tag follows the rename ----
fn reparse_named(doc: &[u8]) -> Option<(String, Model, bool)> {
    let l = Rc::new(RefCell::new(None));
    let l2 = l.clone();
    let settings = Settings::new().append_element_content_handler(element!("*", move |el| { if l2.borrow().is_none() { *l2.borrow_mut() = Some((el.tag_name_preserve_case(), el.attributes().iter().map(|a| (a.name(), a.value())).collect(), el.is_self_closing())); } Ok(()) }));
    let mut rw = HtmlRewriter::new(settings, |_: &[u8]| {});
    let _ = rw.write(doc);
    let _ = rw.end();
    let r = l.borrow().clone();
    r
}
pub fn run_names(rep: &mut AttrReport) {
    let names = ["x", "X", "xY", "H1", "x-y", "Xyzzyxyzzyxyzzy", "a:b", "x\u{e9}"];
    let renames = [None, Some("Zq"), Some("h2"), Some("w-\u{e9}")];
    for n in names {
        for rn in renames {
            for tail in [">", " a=1>", "/>", " />"] {
                if rep.violations.len() >= 5 { return; }
                rep.cases += 1;
                let doc = format!("<{n}{tail}t</{n}>u");
                let seen = std::rc::Rc::new(std::cell::RefCell::new(vec![]));
                let s2 = seen.clone();
                let out = std::rc::Rc::new(std::cell::RefCell::new(vec![]));
                let o2 = out.clone();
                let settings = Settings::new().append_element_content_handler(element!("*", move |el| {
                    let mut v = vec![el.tag_name(), el.tag_name_preserve_case()];
                    if let Some(r) = rn { el.set_tag_name(r)?; v.push(el.tag_name()); v.push(el.tag_name_preserve_case()); }
                    s2.borrow_mut().push(v);
                    Ok(())
                }));
                let ok = { let mut rw = HtmlRewriter::new(settings, move |c: &[u8]| o2.borrow_mut().extend_from_slice(c)); rw.write(doc.as_bytes()).is_ok() && rw.end().is_ok() };
                let mut want = vec![n.to_ascii_lowercase(), n.to_string()];
                if let Some(r) = rn { want.push(r.to_ascii_lowercase()); want.push(r.to_string()); }
                let got = seen.borrow().clone();
                let new_name = rn.unwrap_or(n);
                let want_out = if rn.is_some() { format!("<{new_name}..t</{new_name}>u") } else { doc.clone() };
                let got_out = String::from_utf8_lossy(&out.borrow()).into_owned();
                // a renamed start tag is re-serialised (whitespace inside the tag may be normalised): same name, same attributes and
                // self-closing flag on re-parse, and the end tag follows the rename
                let out_ok = if rn.is_some() {
                    let back = reparse_named(got_out.as_bytes());
                    got_out.starts_with(&format!("<{new_name}")) && got_out.ends_with(&format!("t</{new_name}>u"))
                        && back == Some((new_name.to_string(), if tail.contains("a=1") { vec![("a".to_string(), "1".to_string())] } else { vec![] }, tail.contains('/')))
                } else { got_out == doc };
                if !ok || got != vec![want.clone()] || !out_ok {
                    rep.violations.push(format!("{{\"what\":\"tag_name()/tag_name_preserve_case() or the renamed output differ from the tag's spelling (attributes() / name reads)\",\"input\":{:?},\"cuts\":null,\"detail\":{:?}}}", doc, format!("rename {:?}: got {:?} want {:?}; out {:?} want {:?}", rn, got, want, got_out, want_out)));
                }
            }
        }
    }
}

pub struct AttrReport { pub cases: u64, pub violations: Vec<String> }
fn viol(what: &str, tag: &str, script: &[Op], detail: String) -> String {
    format!("{{\"what\":{:?},\"input\":{:?},\"script\":{:?},\"detail\":{:?}}}", what, tag, format!("{:?}", script), detail)
}

pub fn run_attrs(max_attrs: usize, max_ops: usize) -> AttrReport {
    let mut rep = AttrReport { cases: 0, violations: vec![] };
    run_syntax(if max_attrs >= 4 { 7 } else { 6 }, &mut rep);
    run_names(&mut rep);
    let mut tags: Vec<(String, Model)> = vec![];
    fn rec(cur: &mut Vec<usize>, max: usize, tags: &mut Vec<(String, Model)>) {
        let mut s = String::from("<x");
        let mut m: Model = vec![];
        for &i in cur.iter() { s.push(' '); s.push_str(PIECES[i].0); m.push((PIECES[i].1.to_ascii_lowercase(), PIECES[i].2.to_string())); }
        s.push('>');
        tags.push((s, m));
        if cur.len() == max { return; }
        for i in 0..PIECES.len() { cur.push(i); rec(cur, max, tags); cur.pop(); }
    }
    rec(&mut vec![], max_attrs, &mut tags);
    let mut scripts: Vec<Vec<Op>> = vec![vec![]];
    for a in OPS { scripts.push(vec![*a]); }
    if max_ops >= 2 { for a in OPS { for b in OPS { scripts.push(vec![*a, *b]); } } }
    if max_ops >= 3 { for a in OPS { for b in OPS { for c in OPS { scripts.push(vec![*a, *b, *c]); } } } }
    for (tag, model0) in &tags {
        for script in &scripts {
            if rep.violations.len() >= 5 { return rep; }
            rep.cases += 1;
            let (obs, out) = match run(tag, script) { Ok(x) => x, Err(e) => { rep.violations.push(viol("rewriter failed", tag, script, e)); continue; } };
            // C16: attributes() lists every syntactic attribute in source order (the lexer keeps duplicates) with raw values
            if obs.list_before != *model0 { rep.violations.push(viol("attributes() is not the source-order list of the tag's attributes", tag, script, format!("got {:?} want {:?}", obs.list_before, model0))); continue; }
            let mut m = model0.clone();
            let mut removed_want = vec![];
            for op in script { if let Op::Remove(n) = op { removed_want.push(m_find(&m, n).is_some()); } m_apply(&mut m, *op); }
            let gets_want: Vec<(Option<String>, bool)> = PROBES.iter().map(|p| (m_find(&m, p).map(|i| m[i].1.clone()), m_find(&m, p).is_some())).collect();
            if obs.gets != gets_want { rep.violations.push(viol("get_attribute/has_attribute after edits do not reflect them (first match, ASCII case-insensitive; removed names are gone)", tag, script, format!("probes {:?}: got {:?} want {:?}", PROBES, obs.gets, gets_want))); continue; }
            if obs.list_after != m { rep.violations.push(viol("attributes() after edits is not the edited list", tag, script, format!("got {:?} want {:?}", obs.list_after, m))); continue; }
            // C07: the output is the tag with exactly the edited attribute list (untouched tags are byte-identical)
            if script.is_empty() { if out != tag.as_bytes() { rep.violations.push(viol("unedited tag changed", tag, script, format!("{:?}", String::from_utf8_lossy(&out)))); } continue; }
            let back = reparse(&out);
            let m_ser: Model = m.iter().map(|(k, v)| (k.clone(), v.replace('"', "&quot;"))).collect();   // a set value is written with `"` escaped; value() is the raw text
            if back != m_ser { rep.violations.push(viol("re-parsed output does not carry exactly the edited attribute list", tag, script, format!("out {:?}: got {:?} want {:?}", String::from_utf8_lossy(&out), back, m_ser))); }
        }
    }
    rep
}
