//! U-PARSE-B: bounded exhaustive execution of the REAL crate with the whole-pipeline clauses of the properties as runtime
//! assertions.  It stands in for the one assumed contract (A-parse-loop) and for the relational clauses a unary contract cannot
//! state (two chunkings / two handler sets / two limits compared).  Bounded: alphabet and length are stated in the output; its
//! results are never counted as discharged obligations.  It is also the replay engine: a violated clause is printed with the
//! concrete input, chunking and configuration that fails on the real code.
//!
//! usage: bounded <property> <max_len> <max_cuts> [seed]
use lol_html::errors::RewritingError;
use lol_html::html_content::{ContentType, TextType};
use lol_html::{comments, doc_comments, doc_text, doctype, element, end_tag, text, HtmlRewriter, MemorySettings, Settings};
use std::cell::RefCell;
use std::rc::Rc;
mod sel;
mod enc;
mod attrs;
mod tb;
mod tok;
mod edits;

// live heap bytes (C10 growth probe): a counting wrapper around the system allocator
struct Counting;
static LIVE: std::sync::atomic::AtomicIsize = std::sync::atomic::AtomicIsize::new(0);
unsafe impl std::alloc::GlobalAlloc for Counting {
    unsafe fn alloc(&self, l: std::alloc::Layout) -> *mut u8 { LIVE.fetch_add(l.size() as isize, std::sync::atomic::Ordering::Relaxed); std::alloc::System.alloc(l) }
    unsafe fn dealloc(&self, p: *mut u8, l: std::alloc::Layout) { LIVE.fetch_sub(l.size() as isize, std::sync::atomic::Ordering::Relaxed); std::alloc::System.dealloc(p, l) }
    unsafe fn realloc(&self, p: *mut u8, l: std::alloc::Layout, n: usize) -> *mut u8 { LIVE.fetch_add(n as isize - l.size() as isize, std::sync::atomic::Ordering::Relaxed); std::alloc::System.realloc(p, l, n) }
}
#[global_allocator]
static ALLOC: Counting = Counting;

/// C10 "never unbounded growth": feed `unit` repeated `n` times in writes of 800 units under limit `m`; returns (error, heap bytes the
/// rewriter retains after the last successful write)
fn growth(unit: &str, n: usize, m: usize, with_selector: bool) -> (Option<String>, isize) { growth_tail(unit, n, "", m, with_selector) }
/// same, followed by `tail` written in 64 KiB pieces (an unterminated construct that has to be buffered when a comment handler is on)
fn growth_tail(unit: &str, n: usize, tail: &str, m: usize, with_selector: bool) -> (Option<String>, isize) {
    let doc = unit.repeat(n);
    let mut settings = Settings::new();
    if with_selector { settings = settings.append_element_content_handler(element!("zzz > qq", |_el| Ok(()))); }
    if !tail.is_empty() { settings = settings.append_document_content_handler(doc_comments!(|_c| Ok(()))); }
    settings = settings.with_memory_settings(MemorySettings::new().with_preallocated_parsing_buffer_size(0).with_max_allowed_memory_usage(m));
    let before = LIVE.load(std::sync::atomic::Ordering::Relaxed);
    let mut rw = HtmlRewriter::new(settings, |_: &[u8]| {});
    let mut err = None;
    for c in doc.as_bytes().chunks(unit.len() * 800) {
        if let Err(e) = rw.write(c) { err = Some(format!("{e}")); break; }
    }
    if err.is_none() { for c in tail.as_bytes().chunks(65536) { if let Err(e) = rw.write(c) { err = Some(format!("{e}")); break; } } }
    let after = LIVE.load(std::sync::atomic::Ordering::Relaxed);
    if err.is_none() { let _ = rw.end(); }
    (err, after - before)
}

#[derive(Clone, Copy, PartialEq, Eq, Debug)]
enum Cfg { None, ElemAll, ObserveAll, TextOnly, CommentsOnly, NonMatching, StrictObserve }

const CFGS: [Cfg; 7] = [Cfg::None, Cfg::ElemAll, Cfg::ObserveAll, Cfg::TextOnly, Cfg::CommentsOnly, Cfg::NonMatching, Cfg::StrictObserve];

#[derive(Default, Clone, PartialEq, Eq, Debug)]
struct Run {
    out: Vec<u8>,
    chunk_lens: Vec<usize>,
    events: Vec<String>,     // handler-visible events, text coalesced per node
    locs: Vec<(String, usize, usize)>,
    err: Option<String>,
    out_after_each_write: Vec<usize>,
    calls: usize,
}

struct Opts { fail_at: Option<usize>, max_mem: Option<usize>, graceful: bool, record_text_chunks: bool }
impl Default for Opts { fn default() -> Self { Opts { fail_at: None, max_mem: None, graceful: false, record_text_chunks: false } } }

fn run(input_chunks: &[&[u8]], cfg: Cfg, opts: &Opts) -> Run {
    let r = Rc::new(RefCell::new(Run::default()));
    let text_acc = Rc::new(RefCell::new(String::new()));
    let calls = Rc::new(RefCell::new(0usize));
    let fail_at = opts.fail_at;
    let tick = {
        let calls = calls.clone();
        move || -> Result<(), Box<dyn std::error::Error + Send + Sync>> {
            let mut c = calls.borrow_mut();
            *c += 1;
            if Some(*c) == fail_at { Err("injected".into()) } else { Ok(()) }
        }
    };
    let mut settings = Settings::new();
    let observe_elems = matches!(cfg, Cfg::ElemAll | Cfg::ObserveAll | Cfg::StrictObserve);
    let observe_text = matches!(cfg, Cfg::ObserveAll | Cfg::TextOnly | Cfg::StrictObserve);
    let observe_comments = matches!(cfg, Cfg::ObserveAll | Cfg::CommentsOnly | Cfg::StrictObserve);
    if observe_elems {
        let (r1, r2, t1, t2) = (r.clone(), r.clone(), tick.clone(), tick.clone());
        settings = settings.append_element_content_handler(element!("*", move |el| {
            t1()?;
            let attrs: Vec<String> = el.attributes().iter().map(|a| format!("{}={}", a.name(), a.value())).collect();
            let loc = el.source_location().bytes();
            r1.borrow_mut().events.push(format!("S:{}:{}:{}:{}:{}", el.tag_name_preserve_case(), attrs.join(","), el.namespace_uri(), el.is_self_closing(), el.can_have_content()));
            r1.borrow_mut().locs.push(("S".into(), loc.start, loc.end));
            if el.can_have_content() {
                let r3 = r2.clone();
                let t3 = t2.clone();
                el.on_end_tag(end_tag!(move |e| {
                    t3()?;
                    let loc = e.source_location().bytes();
                    r3.borrow_mut().events.push(format!("E:{}", e.name_preserve_case()));
                    r3.borrow_mut().locs.push(("E".into(), loc.start, loc.end));
                    Ok(())
                }))?;
            }
            Ok(())
        }));
    }
    if cfg == Cfg::NonMatching {
        settings = settings.append_element_content_handler(element!("zzz.qq[nope]", |_el| Ok(())));
    }
    if observe_text {
        let (r1, acc, t1) = (r.clone(), text_acc.clone(), tick.clone());
        let rec = opts.record_text_chunks;
        settings = settings.append_document_content_handler(doc_text!(move |t| {
            t1()?;
            acc.borrow_mut().push_str(t.as_str());
            let loc = t.source_location().bytes();
            if rec { r1.borrow_mut().locs.push((if t.last_in_text_node() { "TL" } else { "T" }.into(), loc.start, loc.end)); }
            if t.last_in_text_node() {
                let s = std::mem::take(&mut *acc.borrow_mut());
                let tt = match t.text_type() { TextType::Data => "data", TextType::PlainText => "plain", TextType::RCData => "rcdata", TextType::RawText => "raw", TextType::ScriptData => "script", TextType::CDataSection => "cdata" };
                r1.borrow_mut().events.push(format!("T:{}:{}", tt, s));
            }
            Ok(())
        }));
    }
    if observe_comments {
        let (r1, t1) = (r.clone(), tick.clone());
        settings = settings.append_document_content_handler(doc_comments!(move |c| {
            t1()?;
            let loc = c.source_location().bytes();
            r1.borrow_mut().events.push(format!("C:{}", c.text()));
            r1.borrow_mut().locs.push(("C".into(), loc.start, loc.end));
            Ok(())
        }));
        let (r2, t2) = (r.clone(), tick.clone());
        settings = settings.append_document_content_handler(doctype!(move |d| {
            t2()?;
            let loc = d.source_location().bytes();
            r2.borrow_mut().events.push(format!("D:{:?}:{:?}:{:?}", d.name(), d.public_id(), d.system_id()));
            r2.borrow_mut().locs.push(("D".into(), loc.start, loc.end));
            Ok(())
        }));
    }
    if cfg == Cfg::StrictObserve { settings = settings.with_strict(true); } else { settings = settings.with_strict(false); }
    let mut mem = MemorySettings::new();
    if let Some(m) = opts.max_mem { mem = mem.with_preallocated_parsing_buffer_size(0).with_max_allowed_memory_usage(m); }
    if opts.graceful { mem = mem.with_graceful_bail_out_on_memory_limit_exceeded(true); settings = settings.with_graceful_bail_out_on_content_handler_error(true); }
    settings = settings.with_memory_settings(mem);
    let out = Rc::new(RefCell::new((Vec::<u8>::new(), Vec::<usize>::new())));
    let o2 = out.clone();
    let mut err = None;
    let mut after = vec![];
    {
        let mut rw = HtmlRewriter::new(settings, move |c: &[u8]| { let mut o = o2.borrow_mut(); o.0.extend_from_slice(c); o.1.push(c.len()); });
        let mut failed = false;
        for c in input_chunks {
            match rw.write(c) {
                Ok(()) => after.push(out.borrow().0.len()),
                Err(e) => { err = Some(match e { RewritingError::MemoryLimitExceeded(_) => "mem".to_string(), RewritingError::ParsingAmbiguity(_) => "ambiguity".to_string(), RewritingError::ContentHandlerError(_) => "handler".to_string(), _ => "other".to_string() }); failed = true; break; }
            }
        }
        if !failed {
            if let Err(e) = rw.end() {
                err = Some(match e { RewritingError::MemoryLimitExceeded(_) => "mem".to_string(), RewritingError::ParsingAmbiguity(_) => "ambiguity".to_string(), RewritingError::ContentHandlerError(_) => "handler".to_string(), _ => "other".to_string() });
            }
        }
    }
    let mut res = r.borrow().clone();
    let o = out.borrow();
    res.out = o.0.clone();
    res.chunk_lens = o.1.clone();
    res.err = err;
    res.out_after_each_write = after;
    res.calls = *calls.borrow();
    res
}

/// C06: handler set H = element handlers on a few names only (so the tag scanner runs between them and hands over to the lexer
/// on a match), alone or together with document-level observers O; returns what H saw (start tags with namespace and the text
/// scoped to `svg`) and the output
fn run_selective(input: &[u8], with_observers: bool, cut: Option<usize>) -> (Vec<String>, Vec<u8>, Option<String>) {
    let ev = Rc::new(RefCell::new(vec![]));
    let acc = Rc::new(RefCell::new(String::new()));
    let (e1, e2, a2) = (ev.clone(), ev.clone(), acc.clone());
    let mut settings = Settings::new()
        .append_element_content_handler(element!("svg, b, i, title, a", move |el| { e1.borrow_mut().push(format!("S:{}:{}", el.tag_name(), el.namespace_uri())); Ok(()) }))
        .append_element_content_handler(text!("svg", move |t| {
            a2.borrow_mut().push_str(t.as_str());
            if t.last_in_text_node() { let s = std::mem::take(&mut *a2.borrow_mut()); if !s.is_empty() { e2.borrow_mut().push(format!("T:{:?}:{s}", t.text_type())); } }
            Ok(())
        }));
    if with_observers {
        settings = settings.append_document_content_handler(doc_text!(|_t| Ok(()))).append_document_content_handler(doc_comments!(|_c| Ok(())))
            .append_element_content_handler(element!("*", |_el| Ok(())));
    }
    settings = settings.with_strict(false);
    let out = Rc::new(RefCell::new(vec![]));
    let o2 = out.clone();
    let mut err = None;
    {
        let mut rw = HtmlRewriter::new(settings, move |c: &[u8]| o2.borrow_mut().extend_from_slice(c));
        let parts: Vec<&[u8]> = match cut { Some(c) => vec![&input[..c], &input[c..]], None => vec![input] };
        for p in parts { if let Err(e) = rw.write(p) { err = Some(e.to_string()); break; } }
        if err.is_none() { if let Err(e) = rw.end() { err = Some(e.to_string()); } }
    }
    let r = ev.borrow().clone();
    let o = out.borrow().clone();
    (r, o, err)
}

const ALPHABET: &[u8] = b"<>/a!-=\" sx'";
const SEEDS: &[&str] = &[
    "<!DOCTYPE html><html><head><title>t&amp;<b></title></head><body class=x><p id=\"a b\" data-q='1'>hi<br/>there</p><!-- c --><script>if(a<b){}</script></body></html>",
    "<div><span a=1 b>x</span><!--x-->tail<p>a</p>z</div>",
    "<svg><title><b>x</b></title><![CDATA[ y <z> ]]></svg><math><mi><i>q</i></mi></math>",
    "<textarea x=><b>x</b></textarea><style a=>p{}</style><script><!--</scrip1 x--></script><i>",
    "</ x><a/ b/c=d><!-><!---><!--a--!><!doctype x public \"y\" 'z'><?pi?><plaintext><b>",
    "<select><option>a<template><p></template></select><frameset></frameset>text",
    "<p>caf\u{e9} \u{4e2d}\u{6587} \u{1f600}</p><a href=\"\u{e9}\">x</a>",
    "<a b='c' d=\"e\" f=g h i=>j</a><img src=x /><br><input disabled>",
    "<div><svg><g><![CDATA[k<b>c</b>]]></g></svg></div><math><mn><![CDATA[<i>]]></mn><![CDATA[<a>]]></math><![CDATA[z]]><i>",
    "<svg><desc><![CDATA[x]]><b></b></desc><![CDATA[<a>]]><foreignObject><![CDATA[<i>]]></foreignObject></svg><a>",
];

fn cuts_of(len: usize, max_cuts: usize) -> Vec<Vec<usize>> {
    let mut v = vec![vec![]];
    if max_cuts >= 1 { for i in 0..=len { v.push(vec![i]); } }
    if max_cuts >= 2 { for i in 0..=len { for j in i..=len { v.push(vec![i, j]); } } }
    if max_cuts >= 3 { v.push((1..len).collect()); } // byte-wise
    v
}
fn split<'a>(input: &'a [u8], cuts: &[usize]) -> Vec<&'a [u8]> {
    let mut res = vec![];
    let mut prev = 0;
    for &c in cuts { res.push(&input[prev..c]); prev = c; }
    res.push(&input[prev..]);
    res
}

struct Report { prop: String, cases: u64, violations: Vec<String> }
impl Report {
    fn fail(&mut self, what: &str, input: &[u8], cuts: &[usize], cfg: Cfg, detail: String) {
        if self.violations.len() < 5 {
            self.violations.push(format!("{{\"what\":{:?},\"input\":{:?},\"input_bytes\":{:?},\"cuts\":{:?},\"cfg\":\"{:?}\",\"detail\":{:?}}}", what, String::from_utf8_lossy(input), input, cuts, cfg, detail));
        }
    }
}

fn check_input(prop: &str, input: &[u8], max_cuts: usize, rep: &mut Report) {
    let all_cuts = cuts_of(input.len(), max_cuts);
    for &cfg in CFGS.iter() {
        let base = run(&[input], cfg, &Opts::default());
        rep.cases += 1;
        match prop {
            "C01" | "C12" => {
                for cuts in &all_cuts {
                    let r = run(&split(input, cuts), cfg, &Opts::default());
                    rep.cases += 1;
                    if prop == "C01" {
                        if r.err.is_none() && r.out != input { rep.fail("sink != input (observers only)", input, cuts, cfg, format!("out={:?}", String::from_utf8_lossy(&r.out))); }
                        if r.err.is_some() && !input.starts_with(&r.out) { rep.fail("failed run emitted a non-prefix", input, cuts, cfg, format!("out={:?}", String::from_utf8_lossy(&r.out))); }
                    } else {
                        let n = r.chunk_lens.len();
                        let zero_mid = n > 0 && r.chunk_lens[..n - 1].iter().any(|&l| l == 0);
                        if zero_mid { rep.fail("zero-length chunk before the end", input, cuts, cfg, format!("{:?}", r.chunk_lens)); }
                        if r.err.is_none() && r.chunk_lens.last() != Some(&0) { rep.fail("successful end() did not finish with a zero-length chunk", input, cuts, cfg, format!("{:?}", r.chunk_lens)); }
                        if r.err.is_some() && r.chunk_lens.last() == Some(&0) { rep.fail("zero-length chunk on a failed run", input, cuts, cfg, format!("{:?}", r.chunk_lens)); }
                    }
                }
                // a handler failing at any call index (also the ones that only happen inside end()), with and without graceful bail-out
                if prop == "C12" && base.calls > 0 {
                    for fail_at in 1..=base.calls {
                        for graceful in [false, true] {
                            for cuts in all_cuts.iter().take(4) {
                                let r = run(&split(input, cuts), cfg, &Opts { fail_at: Some(fail_at), graceful, ..Opts::default() });
                                rep.cases += 1;
                                let n = r.chunk_lens.len();
                                if n > 0 && r.chunk_lens[..n - 1].iter().any(|&l| l == 0) { rep.fail("zero-length chunk before the end (handler failure injected)", input, cuts, cfg, format!("fail_at={fail_at} graceful={graceful} {:?}", r.chunk_lens)); }
                                if r.err.is_some() && r.chunk_lens.last() == Some(&0) { rep.fail("zero-length 'end of output' chunk although the call failed", input, cuts, cfg, format!("fail_at={fail_at} graceful={graceful} {:?}", r.chunk_lens)); }
                                if r.err.is_none() && r.chunk_lens.last() != Some(&0) { rep.fail("successful end() did not finish with a zero-length chunk", input, cuts, cfg, format!("fail_at={fail_at} {:?}", r.chunk_lens)); }
                            }
                        }
                    }
                }
            }
            "C02" | "C14" => {
                for cuts in &all_cuts {
                    let r = run(&split(input, cuts), cfg, &Opts::default());
                    rep.cases += 1;
                    if prop == "C02" {
                        if r.out != base.out || r.events != base.events || r.err != base.err {
                            rep.fail("chunking changed output/events", input, cuts, cfg, format!("single={:?} split={:?}", base.events, r.events));
                        }
                    } else {
                        if r.locs != base.locs { rep.fail("source locations depend on chunking", input, cuts, cfg, format!("single={:?} split={:?}", base.locs, r.locs)); }
                    }
                }
                if prop == "C14" {
                    let mut last_end = 0usize;
                    for (k, s, e) in &base.locs {
                        if *s > *e || *e > input.len() { rep.fail("range out of the input", input, &[], cfg, format!("{k} {s}..{e}")); continue; }
                        if *s < last_end && k != "E" { rep.fail("ranges overlap or go backwards", input, &[], cfg, format!("{:?}", base.locs)); }
                        if k != "E" { last_end = *e; }
                        let b = &input[*s..*e];
                        let ok = match k.as_str() {
                            "S" => b.first() == Some(&b'<') && (b.last() == Some(&b'>')) && b.get(1) != Some(&b'/'),
                            "E" => b.starts_with(b"</") && b.last() == Some(&b'>'),
                            "C" => b.starts_with(b"<") ,
                            "D" => b.starts_with(b"<!"),
                            _ => true,
                        };
                        if !ok && base.err.is_none() { rep.fail("range is not the construct's bytes", input, &[], cfg, format!("{k} {s}..{e} = {:?}", String::from_utf8_lossy(b))); }
                    }
                    // text chunk ranges: contiguous inside a text node, inside the document, for every chunking
                    for cuts in &all_cuts {
                        let t = run(&split(input, cuts), cfg, &Opts { record_text_chunks: true, ..Opts::default() });
                        rep.cases += 1;
                        let mut prev_end: Option<usize> = None;
                        for (k, s, e) in &t.locs {
                            if k == "T" || k == "TL" {
                                if s > e || *e > input.len() { rep.fail("text range out of input", input, cuts, cfg, format!("{s}..{e}")); }
                                if let Some(pe) = prev_end { if *s != pe { rep.fail("text chunk ranges of one text node are not contiguous", input, cuts, cfg, format!("{:?}", t.locs)); } }
                                prev_end = if k == "TL" { None } else { Some(*e) };
                            } else { prev_end = None; }
                        }
                    }
                }
            }
            "C06" => {
                // adding observers must not change what the element observer sees
                if cfg == Cfg::ElemAll {
                    let with_obs = run(&[input], Cfg::ObserveAll, &Opts::default());
                    rep.cases += 1;
                    let a: Vec<&String> = base.events.iter().filter(|e| e.starts_with("S:") || e.starts_with("E:")).collect();
                    let b: Vec<&String> = with_obs.events.iter().filter(|e| e.starts_with("S:") || e.starts_with("E:")).collect();
                    if a != b || base.out != with_obs.out { rep.fail("observers changed another handler's events", input, &[], cfg, format!("alone={:?} with_observers={:?}", a, b)); }
                }
                if cfg == Cfg::None {
                    // selective element handlers (scanner + hand-over) alone vs together with observers that force the lexer
                    for cut in std::iter::once(None).chain((1..input.len()).map(Some)).take(if input.len() > 12 { 200 } else { 13 }) {
                        let (a, ao, ae) = run_selective(input, false, cut);
                        let (b, bo, be) = run_selective(input, true, cut);
                        rep.cases += 2;
                        if a != b || ao != bo || ae != be { rep.fail("observers changed what selective element/text handlers see (scanner/lexer hand-over)", input, &cut.map_or(vec![], |c| vec![c]), cfg, format!("alone={:?} with_observers={:?}", a, b)); break; }
                    }
                }
                if cfg == Cfg::TextOnly {
                    let with_obs = run(&[input], Cfg::ObserveAll, &Opts::default());
                    let a: Vec<&String> = base.events.iter().filter(|e| e.starts_with("T:")).collect();
                    let b: Vec<&String> = with_obs.events.iter().filter(|e| e.starts_with("T:")).collect();
                    if a != b { rep.fail("observers changed the text events", input, &[], cfg, format!("alone={:?} with_observers={:?}", a, b)); }
                }
            }
            "C09" => {
                for cuts in &all_cuts {
                    if cuts.is_empty() { continue; }
                    let chunks = split(input, cuts);
                    let r = run(&chunks, cfg, &Opts::default());
                    rep.cases += 1;
                    // after the k-th write, as much was emitted as by a fresh rewriter given the same prefix in one write
                    let mut upto = 0;
                    for (k, c) in chunks.iter().enumerate() {
                        upto += c.len();
                        if k >= r.out_after_each_write.len() { break; }
                        let single = run(&[&input[..upto]], cfg, &Opts::default());
                        let single_after = single.out_after_each_write.first().copied();
                        if let Some(sa) = single_after { if sa != r.out_after_each_write[k] { rep.fail("earlier chunking delayed output", input, cuts, cfg, format!("after write {k}: split emitted {} single emitted {}", r.out_after_each_write[k], sa)); } }
                    }
                }
                if cfg == Cfg::None || cfg == Cfg::NonMatching {
                    // ends in ordinary text or right after a complete tag/comment => nothing held back
                    let r = run(&[input], cfg, &Opts::default());
                    if let Some(&emitted) = r.out_after_each_write.first() {
                        let held = input.len() - emitted.min(input.len());
                        let no_lt = !input.contains(&b'<');
                        if no_lt && held != 0 { rep.fail("plain text held back", input, &[], cfg, format!("held={held}")); }
                        if held > 0 {
                            // what is held back must start at a '<' or be a short look-ahead
                            let start = input.len() - held;
                            if input[start] != b'<' && held > 8 { rep.fail("held-back region is neither an unfinished tag nor a short look-ahead", input, &[], cfg, format!("held={held}")); }
                        }
                    }
                }
            }
            "C11" => {
                if !matches!(cfg, Cfg::ObserveAll | Cfg::ElemAll | Cfg::CommentsOnly) { continue; }
                let n = base.calls;
                for cuts in all_cuts.iter().take(if max_cuts >= 2 { 40 } else { usize::MAX }) {
                    let chunks = split(input, cuts);
                    for k in 1..=n {
                        let r = run(&chunks, cfg, &Opts { fail_at: Some(k), graceful: true, ..Opts::default() });
                        rep.cases += 1;
                        if r.err.as_deref() != Some("handler") { continue; }
                        // sink + not-yet-written input == input (observers only); written so far = chunks up to and incl. the failing write
                        let written: usize = chunks.iter().take(r.out_after_each_write.len() + 1).map(|c| c.len()).sum();
                        let mut doc = r.out.clone();
                        doc.extend_from_slice(&input[written.min(input.len())..]);
                        if doc != input && cfg != Cfg::ObserveAll { rep.fail("bail-out lost or duplicated bytes", input, cuts, cfg, format!("fail_at={k} sink={:?}", String::from_utf8_lossy(&r.out))); }
                        let r2 = run(&chunks, cfg, &Opts { fail_at: Some(k), graceful: false, ..Opts::default() });
                        if !input.starts_with(&r2.out) { rep.fail("non-graceful failure emitted a non-prefix", input, cuts, cfg, format!("fail_at={k}")); }
                    }
                }
            }
            "C10" => {
                if cfg != Cfg::ElemAll && cfg != Cfg::None { continue; }
                let mut first_ok: Option<usize> = None;
                for m in (0..2200).step_by(if max_cuts >= 2 { 1 } else { 7 }) {
                    for cuts in all_cuts.iter().take(6) {
                        let r = run(&split(input, cuts), cfg, &Opts { max_mem: Some(m), ..Opts::default() });
                        rep.cases += 1;
                        if let Some(e) = &r.err { if e != "mem" { rep.fail("limit produced a non-memory error", input, cuts, cfg, format!("m={m} err={e}")); } }
                        if cuts.is_empty() {
                            if r.err.is_none() { if first_ok.is_none() { first_ok = Some(m); } if r.out != input { rep.fail("output differs under a memory limit", input, cuts, cfg, format!("m={m}")); } }
                            else if first_ok.is_some() { rep.fail("run succeeds under M but fails under a larger limit", input, cuts, cfg, format!("first_ok={:?} fails at m={m}", first_ok)); }
                        }
                    }
                }
            }
            _ => {}
        }
    }
}

// C08: inserted text / accepted names and values cannot change structure: the output is re-parsed by the real parser and must
// show the original structure plus exactly the inserted item.  `payload` ranges over all strings (bounded).
fn structure(doc: &[u8]) -> Vec<String> { run(&[doc], Cfg::ObserveAll, &Opts::default()).events }
fn check_payload(payload: &[u8], rep: &mut Report) {
    let Ok(p) = std::str::from_utf8(payload) else { return };
    let p_owned = p.to_string();
    // (1) Text content appended into an element
    {
        let mut out = vec![];
        let pp = p_owned.clone();
        { let mut rw = HtmlRewriter::new(Settings::new().append_element_content_handler(element!("p", move |el| { el.append(&pp, ContentType::Text); Ok(()) })), |c: &[u8]| out.extend_from_slice(c));
          rw.write(b"<div><p>a</p>b</div>").unwrap(); rw.end().unwrap(); }
        rep.cases += 1;
        let ev = structure(&out);
        let elems: Vec<&String> = ev.iter().filter(|e| !e.starts_with("T:")).collect();
        let base = structure(b"<div><p>a</p>b</div>");
        let base_elems: Vec<&String> = base.iter().filter(|e| !e.starts_with("T:")).collect();
        if elems != base_elems { rep.fail("Text content changed the markup structure", payload, &[], Cfg::ObserveAll, format!("out={:?} events={:?}", String::from_utf8_lossy(&out), ev)); }
    }
    // (2) attribute value
    {
        let mut out = vec![];
        let pp = p_owned.clone();
        { let mut rw = HtmlRewriter::new(Settings::new().append_element_content_handler(element!("p", move |el| { el.set_attribute("x", &pp)?; Ok(()) })), |c: &[u8]| out.extend_from_slice(c));
          rw.write(b"<div><p k=v>a</p>b</div>").unwrap(); rw.end().unwrap(); }
        rep.cases += 1;
        let ev = structure(&out);
        let expect_attr = format!("k=v,x={}", p_owned.replace('"', "&quot;"));
        let ok = ev.iter().any(|e| e.starts_with("S:p:") && e.split(':').nth(2) == Some(&expect_attr)) || p_owned.contains(':');
        let n_elems = ev.iter().filter(|e| e.starts_with("S:")).count();
        if n_elems != 2 || !ok { rep.fail("attribute value changed the markup structure", payload, &[], Cfg::ObserveAll, format!("out={:?} events={:?}", String::from_utf8_lossy(&out), ev)); }
    }
    // (3) comment text
    {
        let mut out = vec![];
        let pp = p_owned.clone();
        let accepted = std::rc::Rc::new(std::cell::Cell::new(false));
        let acc2 = accepted.clone();
        { let mut rw = HtmlRewriter::new(Settings::new().append_document_content_handler(doc_comments!(move |c| { acc2.set(c.set_text(&pp).is_ok()); Ok(()) })), |c: &[u8]| out.extend_from_slice(c));
          rw.write(b"<div><!--c-->b</div>").unwrap(); rw.end().unwrap(); }
        rep.cases += 1;
        let ev = structure(&out);
        if accepted.get() {
            let want = vec![ev.first().cloned().unwrap_or_default(), format!("C:{}", p_owned), "T:data:b".to_string(), "E:div".to_string()];
            if ev != want { rep.fail("accepted comment text changed the markup structure", payload, &[], Cfg::ObserveAll, format!("out={:?} events={:?}", String::from_utf8_lossy(&out), ev)); }
        } else if out != b"<div><!--c-->b</div>" { rep.fail("rejected comment text modified the token", payload, &[], Cfg::ObserveAll, format!("out={:?}", String::from_utf8_lossy(&out))); }
    }
    // (4) tag name and attribute name
    {
        let mut out = vec![];
        let pp = p_owned.clone();
        let accepted = std::rc::Rc::new(std::cell::Cell::new((false, false)));
        let acc2 = accepted.clone();
        { let mut rw = HtmlRewriter::new(Settings::new().append_element_content_handler(element!("p", move |el| { let a = el.set_tag_name(&pp).is_ok(); let b = el.set_attribute(&pp, "1").is_ok(); acc2.set((a, b)); Ok(()) })), |c: &[u8]| out.extend_from_slice(c));
          rw.write(b"<div><p>a</p>b</div>").unwrap(); rw.end().unwrap(); }
        rep.cases += 1;
        let ev = structure(&out);
        let (a, b) = accepted.get();
        let n_s = ev.iter().filter(|e| e.starts_with("S:")).count();
        let n_e = ev.iter().filter(|e| e.starts_with("E:")).count();
        if n_s != 2 || n_e != 2 { rep.fail("accepted tag/attribute name changed the markup structure", payload, &[], Cfg::ObserveAll, format!("accepted=({a},{b}) out={:?} events={:?}", String::from_utf8_lossy(&out), ev)); }
        if a {
            let name_ok = ev.iter().any(|e| e.starts_with(&format!("S:{}:", p_owned))) && ev.iter().any(|e| *e == format!("E:{}", p_owned));
            if !name_ok && !matches!(p_owned.to_ascii_lowercase().as_str(), "script" | "style" | "title" | "textarea" | "xmp" | "iframe" | "noembed" | "noframes" | "noscript" | "plaintext" | "svg" | "math") { rep.fail("renamed tag not found with the new name on both tags", payload, &[], Cfg::ObserveAll, format!("out={:?} events={:?}", String::from_utf8_lossy(&out), ev)); }
        }
        if b {
            let attr_ok = ev.iter().any(|e| e.starts_with("S:") && e.contains(&format!("{}=1", p_owned)));
            if !attr_ok && !p_owned.contains(':') && !p_owned.contains(',') { rep.fail("accepted attribute name does not re-parse as that attribute", payload, &[], Cfg::ObserveAll, format!("out={:?} events={:?}", String::from_utf8_lossy(&out), ev)); }
        }
    }
}

thread_local! { static KNOWN_NS_STACK: RefCell<Vec<String>> = RefCell::new(vec![]); }
const PAYLOAD_ALPHABET: &[u8] = b"<>/a!-=\" &;'\n\x0c";

fn main() {
    let args: Vec<String> = std::env::args().collect();
    let prop = args.get(1).cloned().unwrap_or_else(|| "C01".into());
    let max_len: usize = args.get(2).and_then(|s| s.parse().ok()).unwrap_or(4);
    let max_cuts: usize = args.get(3).and_then(|s| s.parse().ok()).unwrap_or(1);
    let mut rep = Report { prop: prop.clone(), cases: 0, violations: vec![] };
    // exhaustive strings over the alphabet up to max_len
    let mut buf: Vec<u8> = vec![];
    fn rec(buf: &mut Vec<u8>, max_len: usize, prop: &str, max_cuts: usize, rep: &mut Report) {
        check_input(prop, buf, max_cuts, rep);
        if buf.len() == max_len || rep.violations.len() >= 5 { return; }
        for &c in ALPHABET { buf.push(c); rec(buf, max_len, prop, max_cuts, rep); buf.pop(); }
    }
    let exhaustive_len = if matches!(prop.as_str(), "C10" | "C11" | "C09") { max_len.min(3) } else { max_len };
    if prop == "C10" && max_cuts < 100 {
        // growth probe (bounded: 5 nesting families x depth 200000 x limit 1024; slack 64 KiB for fixed-size state)
        let mut ns_stack: Vec<String> = vec![];
        for (unit, sel) in [("<svg>", false), ("<math>", false), ("<svg>", true), ("<div>", false), ("<div>", true), ("<a b=c>", true), ("x", false)] {
            let (err, g) = growth(unit, 200_000, 1024, sel);
            rep.cases += 1;
            if err.is_none() && g > 1024 + 65536 {
                let v = format!("{{\"what\":\"rewriter retains heap proportional to the input under a memory limit without reporting MemoryLimitExceeded\",\"input\":\"{} x 200000, writes of 800 units\",\"detail\":\"max_allowed_memory_usage=1024, selector registered: {}, retained heap after the last write: {} bytes\"}}", unit, sel, g);
                if (unit == "<svg>" || unit == "<math>") && !sel { ns_stack.push(v); } else { rep.violations.push(v); }
            }
        }
        // one limit for everything the rewriter accounts for: an open-element stack of ~3/4 M plus a buffered comment of ~3/4 M must fail
        {
            let m = 4 << 20;
            let (e0, g0) = growth("<div>", 1000, usize::MAX / 2, true);
            let per_item = (g0.max(1) as usize) / 1000;   // measured heap per open element (incl. amortised growth)
            if e0.is_none() && per_item > 0 {
                let n = (3 * m / 4) / per_item.max(1);
                let tail = format!("<!--{}", "x".repeat(3 * m / 4));
                let (err, g) = growth_tail("<div>", n, &tail, m, true);
                rep.cases += 1;
                if err.is_none() && g > (m + 65536) as isize {
                    rep.violations.push(format!("{{\"what\":\"open-element stack and parsing buffer together exceed the memory limit without MemoryLimitExceeded\",\"input\":\"<div> x {} then an unterminated comment of {} bytes, selector `zzz > qq` and a comment handler registered\",\"detail\":\"max_allowed_memory_usage={}, retained heap {} bytes\"}}", n, 3 * m / 4, m, g));
                }
            }
        }
        KNOWN_NS_STACK.with(|k| *k.borrow_mut() = ns_stack);
    }
    if prop == "C07" || prop == "C16" {
        let mut r = attrs::run_attrs(max_len, max_cuts);
        if prop == "C07" { let e = edits::run_edits(3); r.cases += e.cases; r.violations.extend(e.violations); }
        println!("{{\"property\":{:?},\"cases\":{},\"alphabet\":\"attribute pieces a=1 A=2 b b=3 c='x y' a=\\\"4\\\"; ops set(a) set(B) set(d) remove(a) remove(B) remove(z)\",\"exhaustive_len\":{},\"seed_documents\":0,\"max_cuts\":{},\"attr_mode\":true,\"violations\":[{}]}}",
            prop, r.cases, max_len, max_cuts, r.violations.join(","));
        std::process::exit(if r.violations.is_empty() { 0 } else { 1 });
    }
    if prop == "C03" {
        let mut r = tb::run_c03();
        let t = tok::run_tok(max_len);
        r.cases += t.cases;
        r.violations.extend(t.violations);
        let mut classes: std::collections::BTreeMap<String, Vec<String>> = Default::default();
        for (k, v) in r.classified { let e = classes.entry(k).or_default(); if e.len() < 2 { e.push(v); } }
        let cls: Vec<String> = classes.iter().map(|(k, v)| format!("\"known_class_{}\":[{}]", k, v.join(","))).collect();
        println!("{{\"property\":\"C03\",\"cases\":{},\"alphabet\":\"{} conformance cases (foreign content, integration points, text-type switches) + reference-tokenizer differential over `<>/!-a= \\\"'?`\",\"exhaustive_len\":{},\"seed_documents\":{},\"max_cuts\":1,\"tb_mode\":true,\"violations\":[{}]{}{}}}",
            r.cases, tb::CASES.len(), max_len, tb::CASES.len(), r.violations.join(","), if cls.is_empty() { "" } else { "," }, cls.join(","));
        std::process::exit(if r.violations.is_empty() { 0 } else { 1 });
    }
    if prop == "C13" {
        let r = enc::run_c13(max_len);
        println!("{{\"property\":\"C13\",\"cases\":{},\"alphabet\":{:?},\"exhaustive_len\":{},\"seed_documents\":{},\"max_cuts\":1,\"encodings\":{},\"violations\":[{}]}}",
            r.cases, format!("bytes {:02X?}", enc::BYTES), max_len, 4, r.encodings, r.violations.join(","));
        std::process::exit(if r.violations.is_empty() { 0 } else { 1 });
    }
    if prop == "C14" {
        // offsets beyond 32 bits: a start tag (split over two writes) after 2^32 + 12345 bytes of text written in 4 MiB pieces
        let seen = Rc::new(RefCell::new(vec![]));
        let s2 = seen.clone();
        let settings = Settings::new().append_element_content_handler(element!("a", move |el| {
            let t = el.source_location().bytes();
            let mut v = vec![(t.start, t.end)];
            for a in el.attributes() { if let (Some(n), Some(val)) = (a.name_source_location(), a.value_source_location()) { v.push((n.bytes().start, n.bytes().end)); v.push((val.bytes().start, val.bytes().end)); } }
            s2.borrow_mut().push(v);
            Ok(())
        }));
        let filler = vec![b'x'; 4 << 20];
        let pad: usize = (1usize << 32) + 12345;
        let mut rw = HtmlRewriter::new(settings, |_: &[u8]| {});
        let mut written = 0usize;
        while written < pad { let n = (pad - written).min(filler.len()); rw.write(&filler[..n]).unwrap(); written += n; }
        rw.write(b"<a href=\"x\" i").unwrap();
        rw.write(b"d=main>").unwrap();
        rw.end().unwrap();
        rep.cases += 1;
        let want = vec![vec![(pad, pad + 20), (pad + 3, pad + 7), (pad + 9, pad + 10), (pad + 12, pad + 14), (pad + 15, pad + 19)]];
        if *seen.borrow() != want {
            rep.violations.push(format!("{{\"what\":\"source locations after more than 4 GiB of earlier input are not the absolute offsets\",\"input\":\"x * (2^32 + 12345) then <a href=\\\"x\\\" id=main> split over two writes\",\"detail\":{:?}}}", format!("got {:?} want {:?}", seen.borrow(), want)));
        }
    }
    if prop == "C05" {
        let r = sel::run_c05(max_len);
        println!("{{\"property\":\"C05\",\"cases\":{},\"alphabet\":{:?},\"exhaustive_len\":{},\"seed_documents\":{},\"max_cuts\":0,\"scope_mode\":true,\"violations\":[{}]}}",
            r.cases, "tokens: <a> <b> <a class=c> <b id=x k=v> </a> </b> <br> <A K=V> <b class=\"d c\" k=\"v-w\">", max_len, sel::SEED_DOCS.len(), r.violations.join(","));
        std::process::exit(if r.violations.is_empty() { 0 } else { 1 });
    }
    if prop == "C04" {
        let r = sel::run_c04(max_len);
        println!("{{\"property\":\"C04\",\"cases\":{},\"alphabet\":{:?},\"exhaustive_len\":{},\"seed_documents\":{},\"max_cuts\":0,\"selectors\":{},\"unsupported\":{:?},\"violations\":[{}],\"known_class_not_compound\":[{}]}}",
            r.cases, "tokens: <a> <b> <a class=c> <b id=x k=v> </a> </b> <br> <A K=V> <b class=\"d c\" k=\"v-w\">", max_len, sel::SEED_DOCS.len(), r.selectors, r.unsupported, r.violations.join(","), r.not_compound.join(","));
        std::process::exit(if r.violations.is_empty() { 0 } else { 1 });
    }
    if prop == "C08" {
        fn recp(buf: &mut Vec<u8>, max_len: usize, rep: &mut Report) {
            check_payload(buf, rep);
            if buf.len() == max_len || rep.violations.len() >= 5 { return; }
            for &c in PAYLOAD_ALPHABET { buf.push(c); recp(buf, max_len, rep); buf.pop(); }
        }
        recp(&mut buf, max_len, &mut rep);
        for s in ["-->", "--!>", "a-->b", "x--!>y", "->", ">", "</p>", "\"><b", "a b", "caf\u{e9}", "--", "<!--", "]]>", "&quot;"] { check_payload(s.as_bytes(), &mut rep); }
        println!("{{\"property\":{:?},\"cases\":{},\"alphabet\":{:?},\"exhaustive_len\":{},\"seed_documents\":{},\"max_cuts\":{},\"violations\":[{}]}}",
            rep.prop, rep.cases, String::from_utf8_lossy(PAYLOAD_ALPHABET).replace('\x0c', "\u{240c}"), max_len, 14, 0, rep.violations.join(","));
        std::process::exit(if rep.violations.is_empty() { 0 } else { 1 });
    }
    rec(&mut buf, exhaustive_len, &prop, max_cuts, &mut rep);
    for s in SEEDS { if rep.violations.len() < 5 { check_input(&prop, s.as_bytes(), if matches!(prop.as_str(), "C10" | "C11") { 1 } else { max_cuts.max(2) }, &mut rep); } }
    println!("{{\"property\":{:?},\"cases\":{},\"alphabet\":{:?},\"exhaustive_len\":{},\"seed_documents\":{},\"max_cuts\":{},\"violations\":[{}],\"known_class_ns_stack\":[{}]}}",
        rep.prop, rep.cases, String::from_utf8_lossy(ALPHABET), exhaustive_len, SEEDS.len(), max_cuts, rep.violations.join(","), KNOWN_NS_STACK.with(|k| k.borrow().join(",")));
    std::process::exit(if rep.violations.is_empty() { 0 } else { 1 });
}
