//! U-EDIT-B: bounded check of the content-edit algebra (C07) on the REAL crate against a model written from the documentation of
//! Element::{before,after,prepend,append,set_inner_content,replace,remove,remove_and_keep_content} and EndTag::{before,after,remove}:
//! `before`/`append` keep call order, `after`/`prepend` put later calls first, the element's own end-tag edits and the edits made
//! by an `on_end_tag` handler both apply.  Every script of up to 3 insertions + an optional terminal operation + an optional
//! end-tag handler operation, on a non-void element with children.  Bounded stand-in: never counted as a discharged obligation.
use lol_html::html_content::ContentType;
use lol_html::{element, end_tag, HtmlRewriter, Settings};
use std::cell::RefCell;
use std::rc::Rc;

#[derive(Clone, Copy, Debug, PartialEq)]
pub enum Ins { Before(&'static str), After(&'static str), Prepend(&'static str), Append(&'static str) }
#[derive(Clone, Copy, Debug, PartialEq)]
pub enum Term { None, Replace(&'static str), Remove, RemoveKeep, SetInner(&'static str) }
#[derive(Clone, Copy, Debug, PartialEq)]
pub enum EndOp { None, Before(&'static str), After(&'static str), Remove }

const INS: &[Ins] = &[Ins::Before("[b1]"), Ins::Before("[b2]"), Ins::After("[a1]"), Ins::After("[a2]"), Ins::Prepend("[p1]"), Ins::Prepend("[p2]"), Ins::Append("[q1]"), Ins::Append("[q2]")];
const TERMS: &[Term] = &[Term::None, Term::Replace("[R]"), Term::Remove, Term::RemoveKeep, Term::SetInner("[I]")];
const ENDS: &[EndOp] = &[EndOp::None, EndOp::Before("[eb]"), EndOp::After("[ea]"), EndOp::Remove];

fn model(ins: &[Ins], term: Term, end: EndOp) -> String {
    let (mut before, mut after, mut prepend, mut append) = (String::new(), String::new(), String::new(), String::new());
    for i in ins {
        match i {
            Ins::Before(s) => before.push_str(s),
            Ins::After(s) => after = format!("{s}{after}"),
            Ins::Prepend(s) => prepend = format!("{s}{prepend}"),
            Ins::Append(s) => append.push_str(s),
        }
    }
    let children = "hi<b>x</b>";
    let (end_before, end_after, end_removed) = match end { EndOp::None => ("", "", false), EndOp::Before(s) => (s, "", false), EndOp::After(s) => ("", s, false), EndOp::Remove => ("", "", true) };
    let close = if end_removed { "" } else { "</p>" };
    let body = match term {
        Term::Replace(r) => format!("{before}{r}{after}"),
        Term::Remove => format!("{before}{after}"),
        Term::RemoveKeep => format!("{before}{prepend}{children}{append}{end_before}{end_after}{after}"),
        Term::SetInner(i) => format!("{before}<p>{i}{end_before}{close}{end_after}{after}"),
        Term::None => format!("{before}<p>{prepend}{children}{append}{end_before}{close}{end_after}{after}"),
    };
    format!("<d>{body}y</d>")
}

fn run(ins: &[Ins], term: Term, end: EndOp) -> Result<String, String> {
    let out = Rc::new(RefCell::new(vec![]));
    let o2 = out.clone();
    let ins: Vec<Ins> = ins.to_vec();
    let settings = Settings::new().append_element_content_handler(element!("p", move |el| {
        for i in &ins {
            match i {
                Ins::Before(s) => el.before(s, ContentType::Html),
                Ins::After(s) => el.after(s, ContentType::Html),
                Ins::Prepend(s) => el.prepend(s, ContentType::Html),
                Ins::Append(s) => el.append(s, ContentType::Html),
            }
        }
        match term {
            Term::None => {}
            Term::Replace(r) => el.replace(r, ContentType::Html),
            Term::Remove => el.remove(),
            Term::RemoveKeep => el.remove_and_keep_content(),
            Term::SetInner(i) => el.set_inner_content(i, ContentType::Html),
        }
        if end != EndOp::None {
            el.on_end_tag(end_tag!(move |e| {
                match end { EndOp::Before(s) => e.before(s, ContentType::Html), EndOp::After(s) => e.after(s, ContentType::Html), EndOp::Remove => e.remove(), EndOp::None => {} }
                Ok(())
            }))?;
        }
        Ok(())
    }));
    let mut rw = HtmlRewriter::new(settings, move |c: &[u8]| o2.borrow_mut().extend_from_slice(c));
    rw.write(b"<d><p>hi<b>x</b></p>y</d>").map_err(|e| e.to_string())?;
    rw.end().map_err(|e| e.to_string())?;
    let r = String::from_utf8_lossy(&out.borrow()).into_owned();
    Ok(r)
}

pub struct EditReport { pub cases: u64, pub violations: Vec<String> }

pub fn run_edits(max_ins: usize) -> EditReport {
    let mut rep = EditReport { cases: 0, violations: vec![] };
    let mut scripts: Vec<Vec<Ins>> = vec![vec![]];
    let mut frontier: Vec<Vec<Ins>> = vec![vec![]];
    for _ in 0..max_ins {
        let mut next = vec![];
        for s in &frontier { for i in INS { let mut t = s.clone(); t.push(*i); next.push(t); } }
        scripts.extend(next.iter().cloned());
        frontier = next;
    }
    for ins in &scripts {
        for &term in TERMS {
            // set_inner_content together with prepend/append is not specified by the documentation: not generated
            if matches!(term, Term::SetInner(_)) && ins.iter().any(|i| matches!(i, Ins::Prepend(_) | Ins::Append(_))) { continue; }
            for &end in ENDS {
                // an end-tag handler on an element that is removed / replaced: the end tag is dropped with the content, its edits are moot
                if end != EndOp::None && matches!(term, Term::Replace(_) | Term::Remove) { continue; }
                if rep.violations.len() >= 5 { return rep; }
                rep.cases += 1;
                let want = model(ins, term, end);
                match run(ins, term, end) {
                    Ok(got) if got == want => {}
                    Ok(got) => rep.violations.push(format!("{{\"what\":\"output is not the documented edit of the input\",\"input\":\"<d><p>hi<b>x</b></p>y</d>\",\"script\":{:?},\"detail\":{:?}}}", format!("{:?} then {:?}, end-tag handler {:?}", ins, term, end), format!("got {got:?} want {want:?}"))),
                    Err(e) => rep.violations.push(format!("{{\"what\":\"rewriter failed\",\"input\":\"\",\"script\":{:?},\"detail\":{:?}}}", format!("{:?} {:?} {:?}", ins, term, end), e)),
                }
            }
        }
    }
    rep
}
