//! U-ENC-B: bounded check of character-encoding fidelity (C13) on the REAL crate: every ASCII-compatible encoding of
//! encoding_rs x short byte strings (incl. BOM look-alikes, lead/trail bytes, malformed sequences) as text, attribute value and
//! comment text x every write boundary, compared with encoding_rs' one-shot decoder without BOM handling; inserted content
//! compared with encoding_rs' encoder (numeric character references for unmappable characters); the meta-charset switch
//! observed through a recording OutputSink.  Bounded stand-in: never counted as a discharged obligation.
use encoding_rs::*;
use lol_html::html_content::ContentType;
use lol_html::{comments, element, streaming, text, AsciiCompatibleEncoding, HtmlRewriter, OutputSink, Settings};
use std::cell::RefCell;
use std::rc::Rc;

pub static ALL: &[&Encoding] = &[
    BIG5, EUC_JP, EUC_KR, GB18030, GBK, IBM866, ISO_2022_JP, ISO_8859_2, ISO_8859_3, ISO_8859_4, ISO_8859_5, ISO_8859_6, ISO_8859_7,
    ISO_8859_8, ISO_8859_8_I, ISO_8859_10, ISO_8859_13, ISO_8859_14, ISO_8859_15, ISO_8859_16, KOI8_R, KOI8_U, MACINTOSH, REPLACEMENT,
    SHIFT_JIS, UTF_16BE, UTF_16LE, UTF_8, WINDOWS_874, WINDOWS_1250, WINDOWS_1251, WINDOWS_1252, WINDOWS_1253, WINDOWS_1254,
    WINDOWS_1255, WINDOWS_1256, WINDOWS_1257, WINDOWS_1258, X_MAC_CYRILLIC, X_USER_DEFINED,
];
// bytes that exercise BOM sniffing (EF BB BF, FF FE, FE FF), lead/trail bytes of the CJK encodings, UTF-8 sequences, ASCII
pub const BYTES: &[u8] = &[b'a', b'&', 0xE9, 0xC3, 0xA9, 0xEF, 0xBB, 0xBF, 0xFF, 0xFE, 0x81, 0x40, 0x8E, 0xA1, 0x80, 0xE4];

pub struct EncReport { pub cases: u64, pub violations: Vec<String>, pub encodings: usize }
impl EncReport {
    fn fail(&mut self, what: &str, enc: &'static Encoding, input: &[u8], cut: Option<usize>, detail: String) {
        if self.violations.len() < 5 {
            self.violations.push(format!("{{\"what\":{:?},\"encoding\":{:?},\"input_bytes\":{:?},\"cuts\":{},\"detail\":{:?}}}", what, enc.name(), input, cut.map_or("null".to_string(), |c| format!("[{c}]")), detail));
        }
    }
}

fn reference(enc: &'static Encoding, bytes: &[u8]) -> String { enc.decode_without_bom_handling(bytes).0.into_owned() }

#[derive(Default, Clone, Debug, PartialEq)]
struct Seen { text: String, attr: Option<String>, comment: Option<String>, names: Vec<(String, String)>, text_locs: Vec<(usize, usize, bool)>, out: Vec<u8>, err: Option<String> }

fn run(enc: &'static Encoding, doc: &[u8], cut: Option<usize>) -> Seen {
    let seen = Rc::new(RefCell::new(Seen::default()));
    let (s1, s2, s3) = (seen.clone(), seen.clone(), seen.clone());
    let out = Rc::new(RefCell::new(vec![]));
    let o2 = out.clone();
    let settings = Settings::new()
        .with_encoding(AsciiCompatibleEncoding::new(enc).unwrap())
        .with_adjust_charset_on_meta_tag(false)
        .append_element_content_handler(text!("p", move |t| {
            let mut s = s1.borrow_mut();
            s.text.push_str(t.as_str());
            let l = t.source_location().bytes();
            s.text_locs.push((l.start, l.end, t.last_in_text_node()));
            Ok(())
        }))
        .append_element_content_handler(element!("a", move |el| { s2.borrow_mut().attr = el.get_attribute("t"); Ok(()) }))
        .append_element_content_handler(element!("*", { let s4 = seen.clone(); move |el| { s4.borrow_mut().names.push((el.tag_name(), el.tag_name_preserve_case())); Ok(()) } }))
        .append_element_content_handler(comments!("p", move |c| { s3.borrow_mut().comment = Some(c.text()); Ok(()) }));
    let mut err = None;
    {
        let mut rw = HtmlRewriter::new(settings, move |c: &[u8]| o2.borrow_mut().extend_from_slice(c));
        let parts: Vec<&[u8]> = match cut { Some(c) => vec![&doc[..c], &doc[c..]], None => vec![doc] };
        for p in parts { if let Err(e) = rw.write(p) { err = Some(e.to_string()); break; } }
        if err.is_none() { if let Err(e) = rw.end() { err = Some(e.to_string()); } }
    }
    let mut r = seen.borrow().clone();
    r.out = out.borrow().clone();
    r.err = err;
    r
}

fn check_payload(enc: &'static Encoding, payload: &[u8], rep: &mut EncReport) {
    let want = reference(enc, payload);
    // (1) text node
    let mut doc = b"<p>".to_vec();
    doc.extend_from_slice(payload);
    doc.extend_from_slice(b"</p>");
    let cuts: Vec<Option<usize>> = std::iter::once(None).chain((3..=3 + payload.len()).map(Some)).collect();
    for cut in &cuts {
        let r = run(enc, &doc, *cut);
        rep.cases += 1;
        if let Some(e) = &r.err { rep.fail("rewriter failed", enc, &doc, *cut, e.clone()); continue; }
        if r.text != want { rep.fail("text handler did not read the correct decoding of the input bytes", enc, &doc, *cut, format!("read {:?}, reference (encoding_rs, no BOM handling) {:?}", r.text, want)); }
        // C14 on the same run: the chunk ranges tile the text node exactly
        let mut pos = 3usize;
        for (s, e, _last) in &r.text_locs { if *s != pos || e < s { rep.fail("text chunk source ranges do not tile the text node", enc, &doc, *cut, format!("{:?}", r.text_locs)); break; } pos = *e; }
        if !r.text_locs.is_empty() && pos != 3 + payload.len() { rep.fail("text chunk source ranges do not cover the text node", enc, &doc, *cut, format!("{:?} (text is 3..{})", r.text_locs, 3 + payload.len())); }
        // C01: a reader changes nothing if the text is well-formed and the encoding round-trips it
        let (dec, bad) = enc.decode_without_bom_handling(payload);
        if !bad && enc.encode(&dec).0.as_ref() == payload && r.out != doc { rep.fail("a text handler that only reads changed the output", enc, &doc, *cut, format!("out {:?}", r.out)); }
    }
    // (2) attribute value and (3) comment text (single write + one cut in the middle)
    let mut d2 = b"<a t=\"".to_vec();
    d2.extend_from_slice(payload);
    d2.extend_from_slice(b"\">");
    let mut d3 = b"<p><!--".to_vec();
    d3.extend_from_slice(payload);
    d3.extend_from_slice(b"--></p>");
    for cut in [None, Some(6 + payload.len() / 2)] {
        let r = run(enc, &d2, cut);
        rep.cases += 1;
        if r.attr.as_deref() != Some(want.as_str()) { rep.fail("attribute value is not the correct decoding of the input bytes", enc, &d2, cut, format!("read {:?}, reference {:?}", r.attr, want)); }
    }
    // (4) tag names: tag_name() is the ASCII-lowercased decoding, tag_name_preserve_case() the decoding itself
    let mut d4 = b"<X".to_vec();
    d4.extend_from_slice(payload);
    d4.extend_from_slice(b">");
    let mut nb = b"X".to_vec();
    nb.extend_from_slice(payload);
    let want_name = reference(enc, &nb);
    for cut in [None, Some(2 + payload.len() / 2)] {
        let r = run(enc, &d4, cut);
        rep.cases += 1;
        if r.names != vec![(want_name.to_ascii_lowercase(), want_name.clone())] { rep.fail("tag_name()/tag_name_preserve_case() are not the (ASCII-lowercased) decoding of the name bytes", enc, &d4, cut, format!("read {:?}, reference {:?}", r.names, want_name)); }
    }
    for cut in [None, Some(7 + payload.len() / 2)] {
        let r = run(enc, &d3, cut);
        rep.cases += 1;
        if r.comment.as_deref() != Some(want.as_str()) { rep.fail("comment text is not the correct decoding of the input bytes", enc, &d3, cut, format!("read {:?}, reference {:?}", r.comment, want)); }
    }
}

fn check_insert(enc: &'static Encoding, rep: &mut EncReport) {
    // inserted content is encoded into the document encoding, NCRs for what it cannot represent
    for s in ["caf\u{e9}", "\u{4e2d}\u{6587}", "\u{20ac}\u{1f600}", "a\u{3b1}\u{431}\u{5d0}"] {
        let out = Rc::new(RefCell::new(vec![]));
        let o2 = out.clone();
        let ss = s.to_string();
        let settings = Settings::new().with_encoding(AsciiCompatibleEncoding::new(enc).unwrap()).with_adjust_charset_on_meta_tag(false)
            .append_element_content_handler(element!("p", move |el| { el.append(&ss, ContentType::Text); el.set_attribute("x", &ss)?; Ok(()) }));
        let mut rw = HtmlRewriter::new(settings, move |c: &[u8]| o2.borrow_mut().extend_from_slice(c));
        let ok = rw.write(b"<p></p>").is_ok() && rw.end().is_ok();
        rep.cases += 1;
        let enc_s = enc.encode(s).0.into_owned();
        let mut want = b"<p x=\"".to_vec();
        want.extend_from_slice(&enc_s);
        want.extend_from_slice(b"\">");
        want.extend_from_slice(&enc_s);
        want.extend_from_slice(b"</p>");
        if !ok || *out.borrow() != want { rep.fail("inserted content is not the document-encoding form of the string (NCRs for unmappable characters)", enc, s.as_bytes(), None, format!("out {:?} want {:?}", out.borrow(), want)); }
    }
}

// streaming content handlers: UTF-8 written in arbitrary byte pieces (a character may be split between two writes; a dangling
// incomplete sequence followed by other content becomes U+FFFD) must reach the sink as the document-encoding form of the text
fn check_streaming(enc: &'static Encoding, rep: &mut EncReport) {
    let text = "a\u{e9}\u{4e2d}\u{1f600}z";
    let bytes = text.as_bytes();
    for cut in 0..=bytes.len() {
        for dangling in [false, true] {
            // dangling: the first write ends inside a character and is followed by write_str (=> U+FFFD), else the second write completes it
            let first: Vec<u8> = bytes[..cut].to_vec();
            let second: Vec<u8> = bytes[cut..].to_vec();
            let incomplete = std::str::from_utf8(&first).is_err();
            if dangling && !incomplete { continue; }
            let out = Rc::new(RefCell::new(vec![]));
            let o2 = out.clone();
            let (f2, s2) = (first.clone(), second.clone());
            let settings = Settings::new().with_encoding(AsciiCompatibleEncoding::new(enc).unwrap()).with_adjust_charset_on_meta_tag(false)
                .append_element_content_handler(element!("p", move |el| {
                    let (f3, s3) = (f2.clone(), s2.clone());
                    el.streaming_append(streaming!(move |sink| {
                        sink.write_utf8_chunk(&f3, ContentType::Text)?;
                        if dangling { sink.write_str("cd", ContentType::Text); } else { sink.write_utf8_chunk(&s3, ContentType::Text)?; }
                        Ok(())
                    }));
                    Ok(())
                }));
            let ok = { let mut rw = HtmlRewriter::new(settings, move |c: &[u8]| o2.borrow_mut().extend_from_slice(c)); rw.write(b"<p></p>").is_ok() && rw.end().is_ok() };
            rep.cases += 1;
            let want_text: String = if dangling {
                let valid = std::str::from_utf8(&first).err().map(|e| e.valid_up_to()).unwrap_or(first.len());
                format!("{}\u{fffd}cd", std::str::from_utf8(&first[..valid]).unwrap())
            } else { text.to_string() };
            let mut want = b"<p>".to_vec();
            want.extend_from_slice(&enc.encode(&want_text).0);
            want.extend_from_slice(b"</p>");
            if !ok || *out.borrow() != want {
                rep.fail("content written by a streaming handler is not the document-encoding form of the text", enc, &first, Some(cut), format!("dangling: {dangling}, out {:?} want {:?}", out.borrow(), want));
            }
        }
    }
}

struct RecSink { ev: Rc<RefCell<Vec<(String, Vec<u8>)>>> }
impl OutputSink for RecSink {
    fn handle_chunk(&mut self, chunk: &[u8]) { self.ev.borrow_mut().push(("chunk".into(), chunk.to_vec())); }
    fn set_encoding(&mut self, e: AsciiCompatibleEncoding) { let n = format!("{:?}", e); self.ev.borrow_mut().push(("enc".into(), n.into_bytes())); }
}

fn check_meta(rep: &mut EncReport) {
    // UTF-8 document that switches to windows-1251 at a meta tag: text before the tag is UTF-8, text after it windows-1251; the
    // sink hears about the switch before any byte that follows the tag, once; a second meta tag does not switch again
    let head = "\u{416}<meta charset=windows-1251>";
    let mut doc = head.as_bytes().to_vec();
    doc.extend_from_slice(b"<p>\xC6</p><meta charset=koi8-r><p>\xC6</p>");
    for removed in [false, true] {
        for cut in (0..=doc.len()).map(Some).chain(std::iter::once(None)) {
            let ev = Rc::new(RefCell::new(vec![]));
            let texts = Rc::new(RefCell::new(String::new()));
            let t2 = texts.clone();
            let mut settings = Settings::new().with_adjust_charset_on_meta_tag(true)
                .append_element_content_handler(text!("p", move |t| { t2.borrow_mut().push_str(t.as_str()); Ok(()) }));
            if removed { settings = settings.append_element_content_handler(element!("meta", |el| { el.remove(); Ok(()) })); }
            {
                let mut rw = HtmlRewriter::new(settings, RecSink { ev: ev.clone() });
                let parts: Vec<&[u8]> = match cut { Some(c) => vec![&doc[..c], &doc[c..]], None => vec![&doc[..]] };
                let mut ok = true;
                for p in parts { if rw.write(p).is_err() { ok = false; break; } }
                if ok { let _ = rw.end(); }
            }
            rep.cases += 1;
            let ev = ev.borrow();
            let encs: Vec<usize> = ev.iter().enumerate().filter(|(_, e)| e.0 == "enc").map(|(i, _)| i).collect();
            if *texts.borrow() != "\u{416}\u{416}" { rep.fail("text after <meta charset> is not decoded in the declared encoding (or a second declaration switched again)", UTF_8, &doc, cut, format!("texts {:?}", texts.borrow())); }
            if encs.len() != 2 || encs[0] != 0 { rep.fail("sink must be told the initial encoding first and the switch exactly once", UTF_8, &doc, cut, format!("set_encoding at event indices {:?} of {}, meta removed: {}", encs, ev.len(), removed)); continue; }
            // bytes before the notification are exactly the document up to the end of the meta tag (or without it when removed)
            let before: Vec<u8> = ev[..encs[1]].iter().filter(|e| e.0 == "chunk").flat_map(|e| e.1.clone()).collect();
            let want_before: Vec<u8> = if removed { "\u{416}".as_bytes().to_vec() } else { head.as_bytes().to_vec() };
            if before != want_before { rep.fail("sink notification of the new encoding is not placed right after the meta tag", UTF_8, &doc, cut, format!("bytes before the notification: {:?}, meta removed: {}", String::from_utf8_lossy(&before), removed)); }
        }
    }
}

// a meta declaration naming a non-ASCII-compatible encoding (either syntax) must be ignored: no switch, no sink notification
fn check_meta_refused(rep: &mut EncReport) {
    for label in ["utf-16", "utf-16be", "utf-16le", "iso-2022-jp", "replacement", "hz-gb-2312", "no-such-label"] {
        for form in [format!("<meta charset={label}>"), format!("<meta http-equiv=\"Content-Type\" content=\"text/html; charset={label}\">"), format!("<meta content=\"text/html;charset={label}\" http-equiv=content-type>")] {
            let doc = format!("{form}<p>h\u{e9}llo</p>");
            let ev = Rc::new(RefCell::new(vec![]));
            let texts = Rc::new(RefCell::new(String::new()));
            let t2 = texts.clone();
            let settings = Settings::new().with_adjust_charset_on_meta_tag(true)
                .append_element_content_handler(text!("p", move |t| { t2.borrow_mut().push_str(t.as_str()); Ok(()) }));
            let ok = { let mut rw = HtmlRewriter::new(settings, RecSink { ev: ev.clone() }); rw.write(doc.as_bytes()).is_ok() && rw.end().is_ok() };
            rep.cases += 1;
            let n_enc = ev.borrow().iter().filter(|e| e.0 == "enc").count();
            if !ok || n_enc != 1 || *texts.borrow() != "h\u{e9}llo" {
                rep.fail("a meta declaration of a non-ASCII-compatible (or unknown) encoding was not ignored", UTF_8, doc.as_bytes(), None, format!("set_encoding calls: {n_enc}, text read: {:?}", texts.borrow()));
            }
        }
    }
    // the ASCII-compatible label works in the http-equiv form too
    let doc = b"<meta http-equiv=\"Content-Type\" content=\"text/html; charset=windows-1251\"><p>\xC6</p>";
    let ev = Rc::new(RefCell::new(vec![]));
    let texts = Rc::new(RefCell::new(String::new()));
    let t2 = texts.clone();
    let settings = Settings::new().with_adjust_charset_on_meta_tag(true).append_element_content_handler(text!("p", move |t| { t2.borrow_mut().push_str(t.as_str()); Ok(()) }));
    { let mut rw = HtmlRewriter::new(settings, RecSink { ev: ev.clone() }); let _ = rw.write(doc); let _ = rw.end(); }
    rep.cases += 1;
    if *texts.borrow() != "\u{416}" { rep.fail("http-equiv charset declaration not applied", UTF_8, doc, None, format!("text {:?}", texts.borrow())); }
}

pub fn run_c13(max_len: usize) -> EncReport {
    let mut rep = EncReport { cases: 0, violations: vec![], encodings: 0 };
    for enc in ALL {
        // non-ASCII-compatible encodings are refused at configuration time
        let acc = AsciiCompatibleEncoding::new(enc);
        rep.cases += 1;
        let refused = matches!(enc.name(), "UTF-16BE" | "UTF-16LE" | "ISO-2022-JP" | "replacement");
        if acc.is_some() == refused { rep.fail("ASCII-compatibility gate", enc, &[], None, format!("accepted: {}", acc.is_some())); }
        if acc.is_none() { continue; }
        rep.encodings += 1;
        let mut buf: Vec<u8> = vec![];
        fn rec(enc: &'static Encoding, buf: &mut Vec<u8>, max_len: usize, rep: &mut EncReport) {
            if !buf.is_empty() { check_payload(enc, buf, rep); }
            if buf.len() == max_len || rep.violations.len() >= 5 { return; }
            for &b in BYTES { buf.push(b); rec(enc, buf, max_len, rep); buf.pop(); }
        }
        rec(enc, &mut buf, max_len, &mut rep);
        // longer texts: beyond the decoder's internal buffer (1 KiB in the crate), with a multi-byte character at every offset mod 4
        let sample = enc.encode("\u{e9}\u{416}\u{4e2d}\u{3042}x").0.into_owned();
        for pad in 0..4 {
            let mut long: Vec<u8> = vec![b'y'; pad];
            while long.len() < 2600 { long.extend_from_slice(&sample); }
            check_payload_long(enc, &long, &mut rep);
        }
        check_insert(enc, &mut rep);
        check_streaming(enc, &mut rep);
    }
    check_meta(&mut rep);
    check_meta_refused(&mut rep);
    rep
}

fn check_payload_long(enc: &'static Encoding, payload: &[u8], rep: &mut EncReport) {
    let want = reference(enc, payload);
    let mut doc = b"<p>".to_vec();
    doc.extend_from_slice(payload);
    doc.extend_from_slice(b"</p>");
    for cut in [None, Some(1026), Some(1027), Some(1028), Some(1029), Some(2051)] {
        let r = run(enc, &doc, cut);
        rep.cases += 1;
        if r.text != want { rep.fail("long text (beyond the decoder buffer) is not decoded correctly", enc, &doc[..40], cut, format!("lengths read {} reference {}", r.text.len(), want.len())); }
        let mut pos = 3usize;
        for (s, e, _) in &r.text_locs { if *s != pos { rep.fail("text chunk source ranges do not tile a long text node", enc, &doc[..40], cut, format!("{:?}", &r.text_locs[..r.text_locs.len().min(6)])); break; } pos = *e; }
    }
}
