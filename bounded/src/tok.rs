//! U-TOK-B: differential check of the tokenizer against a reference implementation of the WHATWG tokenizer states (C03), HTML
//! content only (no svg/math: tree-builder feedback for foreign content is the conformance-case list in tb.rs).  The reference is
//! written from the standard (13.2.5.1 - 13.2.5.60), reduced to what a rewriter's handlers observe: start tags (name), comments
//! (data), doctypes, and the text between them; end tags, attributes and character references are not events here (text on both
//! sides of an end tag is compared as one run).
//! Bounded stand-in: never counted as a discharged obligation.
use lol_html::{doc_comments, doc_text, doctype, element, HtmlRewriter, Settings};
use std::cell::RefCell;
use std::rc::Rc;

#[derive(Clone, Copy, PartialEq, Debug)]
enum Tt { Data, Rcdata, Rawtext, Script, Plaintext }

fn is_ws(c: u8) -> bool { matches!(c, b' ' | b'\t' | b'\n' | b'\x0c' | b'\r') }

pub fn reference(input: &[u8]) -> Vec<String> {
    let mut ev: Vec<String> = vec![];
    let mut text: Vec<u8> = vec![];
    let n = input.len();
    let mut i = 0usize;
    let mut tt = Tt::Data;
    let mut last_start = String::new();
    macro_rules! flush { () => { if !text.is_empty() { ev.push(format!("T:{}", String::from_utf8_lossy(&text))); text.clear(); } } }

    // scans the rest of a tag after its name (attribute states); returns the index after '>' or None at EOF; sets self_closing
    fn skip_attrs(input: &[u8], mut i: usize) -> Option<usize> {
        #[derive(PartialEq)]
        enum St { BeforeName, Name, AfterName, BeforeValue, Dq, Sq, Unq, AfterQuoted, SelfClosing }
        let mut st = St::BeforeName;
        while i < input.len() {
            let c = input[i];
            match st {
                St::BeforeName => { if is_ws(c) { i += 1; } else if c == b'/' { st = St::SelfClosing; i += 1; } else if c == b'>' { return Some(i + 1); } else if c == b'=' { st = St::Name; i += 1; } else { st = St::Name; } }
                St::Name => { if is_ws(c) || c == b'/' || c == b'>' { st = St::AfterName; } else if c == b'=' { st = St::BeforeValue; i += 1; } else { i += 1; } }
                St::AfterName => { if is_ws(c) { i += 1; } else if c == b'/' { st = St::SelfClosing; i += 1; } else if c == b'=' { st = St::BeforeValue; i += 1; } else if c == b'>' { return Some(i + 1); } else { st = St::Name; } }
                St::BeforeValue => { if is_ws(c) { i += 1; } else if c == b'"' { st = St::Dq; i += 1; } else if c == b'\'' { st = St::Sq; i += 1; } else if c == b'>' { return Some(i + 1); } else { st = St::Unq; } }
                St::Dq => { if c == b'"' { st = St::AfterQuoted; } i += 1; }
                St::Sq => { if c == b'\'' { st = St::AfterQuoted; } i += 1; }
                St::Unq => { if is_ws(c) { st = St::BeforeName; i += 1; } else if c == b'>' { return Some(i + 1); } else { i += 1; } }
                St::AfterQuoted => { if is_ws(c) { st = St::BeforeName; i += 1; } else if c == b'/' { st = St::SelfClosing; i += 1; } else if c == b'>' { return Some(i + 1); } else { st = St::BeforeName; } }
                St::SelfClosing => { if c == b'>' { return Some(i + 1); } else { st = St::BeforeName; } }
            }
        }
        None
    }
    // tag name starting at i (first char is ASCII alpha); returns (lowercased name, index of the delimiter or n)
    fn tag_name(input: &[u8], mut i: usize) -> (String, usize) {
        let mut s = String::new();
        while i < input.len() && !is_ws(input[i]) && input[i] != b'/' && input[i] != b'>' { s.push(input[i].to_ascii_lowercase() as char); i += 1; }
        (s, i)
    }
    // bogus comment from i: data up to '>' (exclusive) or EOF
    fn bogus(input: &[u8], i: usize) -> (String, usize) {
        let mut j = i;
        while j < input.len() && input[j] != b'>' { j += 1; }
        (String::from_utf8_lossy(&input[i..j]).into_owned(), (j + 1).min(input.len()))
    }
    // comment states from i (after "<!--"); returns (data, next index)
    fn comment(input: &[u8], mut i: usize) -> (String, usize) {
        #[derive(PartialEq, Clone, Copy)]
        enum C { Start, StartDash, Comment, Lt, LtBang, LtBangDash, LtBangDashDash, EndDash, End, EndBang }
        let n = input.len();
        let mut d: Vec<u8> = vec![];
        let mut st = C::Start;
        loop {
            if i >= n {
                // EOF: every comment state emits the comment (eof-in-comment); pending dashes are not part of the data
                return (String::from_utf8_lossy(&d).into_owned(), n);
            }
            let c = input[i];
            match st {
                C::Start => { if c == b'-' { st = C::StartDash; i += 1; } else if c == b'>' { return (String::from_utf8_lossy(&d).into_owned(), i + 1); } else { st = C::Comment; } }
                C::StartDash => { if c == b'-' { st = C::End; i += 1; } else if c == b'>' { return (String::from_utf8_lossy(&d).into_owned(), i + 1); } else { d.push(b'-'); st = C::Comment; } }
                C::Comment => { if c == b'<' { d.push(c); st = C::Lt; i += 1; } else if c == b'-' { st = C::EndDash; i += 1; } else { d.push(c); i += 1; } }
                C::Lt => { if c == b'!' { d.push(c); st = C::LtBang; i += 1; } else if c == b'<' { d.push(c); i += 1; } else { st = C::Comment; } }
                C::LtBang => { if c == b'-' { st = C::LtBangDash; i += 1; } else { st = C::Comment; } }
                C::LtBangDash => { if c == b'-' { st = C::LtBangDashDash; i += 1; } else { st = C::EndDash; } }
                C::LtBangDashDash => { st = C::End; }
                C::EndDash => { if c == b'-' { st = C::End; i += 1; } else { d.push(b'-'); st = C::Comment; } }
                C::End => { if c == b'>' { return (String::from_utf8_lossy(&d).into_owned(), i + 1); } else if c == b'!' { st = C::EndBang; i += 1; } else if c == b'-' { d.push(b'-'); i += 1; } else { d.extend_from_slice(b"--"); st = C::Comment; } }
                C::EndBang => { if c == b'-' { d.extend_from_slice(b"--!"); st = C::EndDash; i += 1; } else if c == b'>' { return (String::from_utf8_lossy(&d).into_owned(), i + 1); } else { d.extend_from_slice(b"--!"); st = C::Comment; } }
            }
        }
    }

    while i < n {
        match tt {
            Tt::Plaintext => { text.extend_from_slice(&input[i..]); i = n; }
            Tt::Data => {
                let c = input[i];
                if c != b'<' { text.push(c); i += 1; continue; }
                // tag open
                if i + 1 >= n { text.push(b'<'); i += 1; continue; }
                let d = input[i + 1];
                if d == b'!' {
                    // markup declaration open
                    let rest = &input[i + 2..];
                    if rest.starts_with(b"--") { flush!(); let (t, j) = comment(input, i + 4); ev.push(format!("C:{t}")); i = j; }
                    else if rest.len() >= 7 && rest[..7].eq_ignore_ascii_case(b"doctype") { flush!(); let (_t, j) = bogus(input, i + 9); ev.push("D".into()); i = j; }
                    else { flush!(); let (t, j) = bogus(input, i + 2); ev.push(format!("C:{t}")); i = j; }
                } else if d == b'/' {
                    if i + 2 >= n { text.extend_from_slice(b"</"); i += 2; }
                    else if input[i + 2].is_ascii_alphabetic() { let (_name, j) = tag_name(input, i + 2); match skip_attrs(input, j) { Some(k) => { i = k; } None => { i = n; } } }
                    else if input[i + 2] == b'>' { i += 3; }
                    else { flush!(); let (t, j) = bogus(input, i + 2); ev.push(format!("C:{t}")); i = j; }
                } else if d.is_ascii_alphabetic() {
                    let (name, j) = tag_name(input, i + 1);
                    flush!();
                    match skip_attrs(input, j) {
                        Some(k) => {
                            ev.push(format!("S:{name}"));
                            last_start = name.clone();
                            tt = match name.as_str() { "textarea" | "title" => Tt::Rcdata, "plaintext" => Tt::Plaintext, "script" => Tt::Script, "style" | "iframe" | "xmp" | "noembed" | "noframes" | "noscript" => Tt::Rawtext, _ => Tt::Data };
                            i = k;
                        }
                        None => { i = n; }
                    }
                } else if d == b'?' { flush!(); let (t, j) = bogus(input, i + 1); ev.push(format!("C:{t}")); i = j; }
                else { text.push(b'<'); i += 1; }
            }
            Tt::Rcdata | Tt::Rawtext => {
                // text until an appropriate end tag
                let c = input[i];
                if c == b'<' && i + 2 < n && input[i + 1] == b'/' && input[i + 2].is_ascii_alphabetic() {
                    let (name, j) = tag_name(input, i + 2);
                    if name == last_start && j < n { match skip_attrs(input, j) { Some(k) => { i = k; tt = Tt::Data; } None => { i = n; } } continue; }
                }
                text.push(c); i += 1;
            }
            Tt::Script => {
                // script data with the escaped / double escaped sub-states; everything is text except an appropriate end tag
                // reached from a state where end tags are recognised
                #[derive(PartialEq, Clone, Copy, Debug)]
                enum S { Data, EscStart, EscStartDash, Esc, EscDash, EscDashDash, Dbl, DblDash, DblDashDash }
                let mut st = S::Data;
                let mut done = false;
                while i < n && !done {
                    let c = input[i];
                    let end_tag_here = |i: usize| -> Option<usize> {
                        if c == b'<' && i + 2 < n && input[i + 1] == b'/' && input[i + 2].is_ascii_alphabetic() {
                            let (name, j) = tag_name(input, i + 2);
                            if name == "script" && j < n { return Some(j); }
                        }
                        None
                    };
                    match st {
                        S::Data => {
                            if let Some(j) = end_tag_here(i) { match skip_attrs(input, j) { Some(k) => { i = k; } None => { i = n; } } tt = Tt::Data; done = true; }
                            else if c == b'<' && i + 1 < n && input[i + 1] == b'!' { text.extend_from_slice(b"<!"); i += 2; st = S::EscStart; }
                            else { text.push(c); i += 1; }
                        }
                        S::EscStart => { if c == b'-' { text.push(c); i += 1; st = S::EscStartDash; } else { st = S::Data; } }
                        S::EscStartDash => { if c == b'-' { text.push(c); i += 1; st = S::EscDashDash; } else { st = S::Data; } }
                        S::Esc | S::EscDash | S::EscDashDash => {
                            if c == b'-' { text.push(c); i += 1; st = match st { S::Esc => S::EscDash, _ => S::EscDashDash }; }
                            else if c == b'<' {
                                if let Some(j) = end_tag_here(i) { match skip_attrs(input, j) { Some(k) => { i = k; } None => { i = n; } } tt = Tt::Data; done = true; }
                                else if i + 1 < n && input[i + 1].is_ascii_alphabetic() {
                                    // double escape start: '<' + letters; if the word is "script" followed by ws / '/' / '>' => double escaped
                                    let mut j = i + 1;
                                    let mut w = String::new();
                                    while j < n && input[j].is_ascii_alphabetic() { w.push(input[j].to_ascii_lowercase() as char); j += 1; }
                                    if j < n && (is_ws(input[j]) || input[j] == b'/' || input[j] == b'>') {
                                        text.extend_from_slice(&input[i..=j]);
                                        st = if w == "script" { S::Dbl } else { S::Esc };
                                        i = j + 1;
                                    } else { text.extend_from_slice(&input[i..j]); i = j; st = S::Esc; }
                                } else { text.push(c); i += 1; st = S::Esc; }
                            }
                            else if c == b'>' && st == S::EscDashDash { text.push(c); i += 1; st = S::Data; }
                            else { text.push(c); i += 1; st = S::Esc; }
                        }
                        S::Dbl | S::DblDash | S::DblDashDash => {
                            if c == b'-' { text.push(c); i += 1; st = match st { S::Dbl => S::DblDash, _ => S::DblDashDash }; }
                            else if c == b'<' {
                                text.push(c); i += 1;
                                // double escaped less-than sign: '/' starts the double escape end
                                if i < n && input[i] == b'/' {
                                    text.push(b'/'); i += 1;
                                    let mut j = i;
                                    let mut w = String::new();
                                    while j < n && input[j].is_ascii_alphabetic() { w.push(input[j].to_ascii_lowercase() as char); j += 1; }
                                    if j < n && (is_ws(input[j]) || input[j] == b'/' || input[j] == b'>') {
                                        text.extend_from_slice(&input[i..=j]);
                                        st = if w == "script" { S::Esc } else { S::Dbl };
                                        i = j + 1;
                                    } else { text.extend_from_slice(&input[i..j]); i = j; st = S::Dbl; }
                                } else { st = S::Dbl; }
                            }
                            else if c == b'>' && st == S::DblDashDash { text.push(c); i += 1; st = S::Data; }
                            else { text.push(c); i += 1; st = S::Dbl; }
                        }
                    }
                }
            }
        }
    }
    flush!();
    ev
}

fn observed(input: &[u8], cut: Option<usize>) -> Result<Vec<String>, String> {
    let ev = Rc::new(RefCell::new(vec![]));
    let acc = Rc::new(RefCell::new(String::new()));
    let flush = { let (e, a) = (ev.clone(), acc.clone()); move || { let s = std::mem::take(&mut *a.borrow_mut()); if !s.is_empty() { e.borrow_mut().push(format!("T:{s}")); } } };
    let (f1, f2, f3) = (flush.clone(), flush.clone(), flush.clone());
    let (e1, e2, e3, a2) = (ev.clone(), ev.clone(), ev.clone(), acc.clone());
    let settings = Settings::new()
        .append_element_content_handler(element!("*", move |el| { f1(); e1.borrow_mut().push(format!("S:{}", el.tag_name())); Ok(()) }))
        .append_document_content_handler(doc_text!(move |t| { a2.borrow_mut().push_str(t.as_str()); Ok(()) }))
        .append_document_content_handler(doc_comments!(move |c| { f2(); e2.borrow_mut().push(format!("C:{}", c.text())); Ok(()) }))
        .append_document_content_handler(doctype!(move |_d| { f3(); e3.borrow_mut().push("D".into()); Ok(()) }));
    {
        let mut rw = HtmlRewriter::new(settings, |_: &[u8]| {});
        let parts: Vec<&[u8]> = match cut { Some(c) => vec![&input[..c], &input[c..]], None => vec![input] };
        for p in parts { rw.write(p).map_err(|e| e.to_string())?; }
        rw.end().map_err(|e| e.to_string())?;
    }
    flush();
    let r = ev.borrow().clone();
    Ok(r)
}

pub struct TokReport { pub cases: u64, pub violations: Vec<String> }

fn check(doc: &[u8], with_cuts: bool, rep: &mut TokReport) {
    if rep.violations.len() >= 5 { return; }
    let want = reference(doc);
    let cuts: Vec<Option<usize>> = if with_cuts { std::iter::once(None).chain((1..doc.len()).map(Some)).collect() } else { vec![None] };
    for cut in cuts {
        rep.cases += 1;
        match observed(doc, cut) {
            Ok(got) if got == want => {}
            Ok(got) => { rep.violations.push(format!("{{\"what\":\"token stream differs from the WHATWG tokenizer\",\"input\":{:?},\"input_bytes\":{:?},\"cuts\":{},\"detail\":{:?}}}", String::from_utf8_lossy(doc), doc, cut.map_or("null".to_string(), |c| format!("[{c}]")), format!("got {:?} want {:?}", got, want))); return; }
            Err(e) => { rep.violations.push(format!("{{\"what\":\"rewriter failed\",\"input\":{:?},\"cuts\":null,\"detail\":{:?}}}", String::from_utf8_lossy(doc), e)); return; }
        }
    }
}

pub const CHARS: &[u8] = b"<>/!-a= \"'?";
pub const SCRIPT_TOKS: &[&str] = &["<", ">", "/", "!", "-", "script", "x", " "];

pub fn run_tok(max_len: usize) -> TokReport {
    let mut rep = TokReport { cases: 0, violations: vec![] };
    // (A) every string over CHARS up to max_len
    fn rec(buf: &mut Vec<u8>, max_len: usize, rep: &mut TokReport) {
        if !buf.is_empty() { check(buf, buf.len() <= 4, rep); }
        if buf.len() == max_len || rep.violations.len() >= 5 { return; }
        for &c in CHARS { buf.push(c); rec(buf, max_len, rep); buf.pop(); }
    }
    rec(&mut vec![], max_len, &mut rep);
    // (B) inside raw-text contexts: prefix + token sequences + a closing tail
    for (prefix, word, tail) in [("<script>", "script", "</script><p>z"), ("<script><!--", "script", "</script><p>z"), ("<script><!--<script>", "script", "</script><p>z</script>w"), ("<textarea>", "textarea", "</textarea><p>z"), ("<style>", "style", "</style><p>z"), ("<title>", "title", "</title><p>z"), ("<xmp>", "xmp", "</xmp><p>z"), ("<plaintext>", "plaintext", "</plaintext><p>z")] {
        let toks: Vec<String> = SCRIPT_TOKS.iter().map(|t| if *t == "script" { word.to_string() } else { t.to_string() }).collect();
        let depth = if prefix == "<script>" { max_len + 1 } else if word == "script" { max_len } else { max_len.min(5) };
        fn rec2(cur: &mut Vec<usize>, depth: usize, toks: &[String], prefix: &str, tail: &str, rep: &mut TokReport) {
            let mut doc = prefix.as_bytes().to_vec();
            for &t in cur.iter() { doc.extend_from_slice(toks[t].as_bytes()); }
            let body_end = doc.len();
            doc.extend_from_slice(tail.as_bytes());
            check(&doc, cur.len() <= 3, rep);
            let _ = body_end;
            if cur.len() == depth || rep.violations.len() >= 5 { return; }
            for t in 0..toks.len() { cur.push(t); rec2(cur, depth, toks, prefix, tail, rep); cur.pop(); }
        }
        rec2(&mut vec![], depth, &toks, prefix, tail, &mut rep);
    }
    // (C) seeds
    for s in ["<script><!--<script>x--></script>y</script><p>", "<script><!--x</script><p>", "<script><!--<script></script>x--></script><p>",
              "<!DOCTYPE html><p>a<!---->b<!--->c<!-- x --!>d<!--<!--e-->f", "<textarea></TEXTAREA ><title>a</titlex></title>", "<a b='>'c=\">\">x</a/>y</ a>z<//>w<?pi?>", "<![CDATA[x]]><!x><!doctypex>"] {
        check(s.as_bytes(), true, &mut rep);
    }
    rep
}
