//! U-TB-B: tokenizer / tree-builder-feedback conformance cases (C03, C16 namespace): hand-derived from the WHATWG standard
//! (sections 13.2.5 tokenization states switched by the tree builder, 13.2.6.4.7 "in body" for svg/math, 13.2.6.5 foreign
//! content, HTML / MathML-text integration points).  Each case: input -> the start tags (name:namespace), coalesced text and
//! comments a conforming parser reports.  Run with a `*` element handler (lexer path), with text handlers only (scanner + lexer
//! switching) and under every 1-cut chunking.  Bounded stand-in (a finite case list): never counted as a discharged obligation.
use lol_html::{doc_comments, doc_text, element, HtmlRewriter, Settings};
use std::cell::RefCell;
use std::rc::Rc;

pub struct Case { pub input: &'static str, pub want: &'static [&'static str], pub known_class: Option<&'static str>, pub ns_known_class: Option<&'static str> }

pub const CASES: &[Case] = &[
    Case { input: "<svg></svg><style><b></b></style>", want: &["<svg:svg>", "<style:html>", "T:<b></b>"], known_class: None, ns_known_class: None },
    Case { input: "<svg><style><b></b></style></svg>", want: &["<svg:svg>", "<style:svg>", "<b:html>"], known_class: None, ns_known_class: None },
    Case { input: "<svg><svg></svg><style><b></b></style></svg><style><i></i></style>", want: &["<svg:svg>", "<svg:svg>", "<style:svg>", "<b:html>", "<style:html>", "T:<i></i>"], known_class: None, ns_known_class: None },
    Case { input: "<math><math></math><![CDATA[<a>]]></math><![CDATA[x]]>", want: &["<math:mathml>", "<math:mathml>", "T:<a>", "C:[CDATA[x]]"], known_class: None, ns_known_class: None },
    Case { input: "<svg><![CDATA[<a>]]></svg><![CDATA[x]]>", want: &["<svg:svg>", "T:<a>", "C:[CDATA[x]]"], known_class: None, ns_known_class: None },
    Case { input: "<svg><p>x</p><g>", want: &["<svg:svg>", "<p:html>", "T:x", "<g:html>"], known_class: None, ns_known_class: None },
    Case { input: "<math><mi><b>x</b></mi><mo></mo></math><i>", want: &["<math:mathml>", "<mi:mathml>", "<b:html>", "T:x", "<mo:mathml>", "<i:html>"], known_class: None, ns_known_class: Some("integration_point_ns") },
    Case { input: "<textarea><b></textarea><title><i></title><xmp><u></xmp><script><a></script><style><s></style><plaintext><b>", want: &["<textarea:html>", "T:<b>", "<title:html>", "T:<i>", "<xmp:html>", "T:<u>", "<script:html>", "T:<a>", "<style:html>", "T:<s>", "<plaintext:html>", "T:<b>"], known_class: None, ns_known_class: None },
    Case { input: "<svg><title><b></title><g>", want: &["<svg:svg>", "<title:svg>", "<b:html>", "<g:svg>"], known_class: None, ns_known_class: Some("integration_point_ns") },
    Case { input: "<svg><foreignObject><p>x</p><svg></svg><style><b></style></foreignObject><g></g></svg>", want: &["<svg:svg>", "<foreignobject:svg>", "<p:html>", "T:x", "<svg:svg>", "<style:html>", "T:<b>", "<g:svg>"], known_class: None, ns_known_class: Some("integration_point_ns") },
    Case { input: "<svg><desc><style><b></b></style></desc><g>", want: &["<svg:svg>", "<desc:svg>", "<style:html>", "T:<b></b>", "<g:svg>"], known_class: None, ns_known_class: Some("integration_point_ns") },
    // self-closing foreign roots are popped at once: what follows is HTML content
    Case { input: "<svg/><style><b></b></style>", want: &["<svg:svg>", "<style:html>", "T:<b></b>"], known_class: Some("foreign_root_self_closing"), ns_known_class: None },
    Case { input: "<math/><title><b>x</b></title>", want: &["<math:mathml>", "<title:html>", "T:<b>x</b>"], known_class: Some("foreign_root_self_closing"), ns_known_class: None },
    // an HTML <title> inside an SVG integration point: its end tag closes the title only
    Case { input: "<svg><desc><title>x</title><style><b></b></style></desc>", want: &["<svg:svg>", "<desc:svg>", "<title:html>", "T:x", "<style:html>", "T:<b></b>"], known_class: Some("integration_point_exit_by_name"), ns_known_class: Some("integration_point_ns") },
    Case { input: "<svg><a/><b/><circle/></svg>", want: &["<svg:svg>", "<a:svg>", "<b:html>", "<circle:html>"], known_class: None, ns_known_class: None },
];

fn run(input: &[u8], cut: Option<usize>, with_elements: bool) -> Result<Vec<String>, String> {
    let ev = Rc::new(RefCell::new(vec![]));
    let acc = Rc::new(RefCell::new(String::new()));
    let (e1, e2, e3, a2) = (ev.clone(), ev.clone(), ev.clone(), acc.clone());
    let mut settings = Settings::new()
        .append_document_content_handler(doc_text!(move |t| {
            a2.borrow_mut().push_str(t.as_str());
            if t.last_in_text_node() { let s = std::mem::take(&mut *a2.borrow_mut()); if !s.is_empty() { e2.borrow_mut().push(format!("T:{s}")); } }
            Ok(())
        }))
        .append_document_content_handler(doc_comments!(move |c| { e3.borrow_mut().push(format!("C:{}", c.text())); Ok(()) }));
    if with_elements {
        settings = settings.append_element_content_handler(element!("*", move |el| {
            let ns = match el.namespace_uri() { "http://www.w3.org/1999/xhtml" => "html", "http://www.w3.org/2000/svg" => "svg", _ => "mathml" };
            e1.borrow_mut().push(format!("<{}:{}>", el.tag_name(), ns));
            Ok(())
        }));
    }
    let mut rw = HtmlRewriter::new(settings, |_: &[u8]| {});
    let parts: Vec<&[u8]> = match cut { Some(c) => vec![&input[..c], &input[c..]], None => vec![input] };
    for p in parts { rw.write(p).map_err(|e| e.to_string())?; }
    rw.end().map_err(|e| e.to_string())?;
    let r = ev.borrow().clone();
    Ok(r)
}

fn strip_ns(v: &[String]) -> Vec<String> { v.iter().map(|s| if s.starts_with('<') { s.split(':').next().unwrap().to_string() + ">" } else { s.clone() }).collect() }

pub struct TbReport { pub cases: u64, pub violations: Vec<String>, pub classified: Vec<(String, String)> }

pub fn run_c03() -> TbReport {
    let mut rep = TbReport { cases: 0, violations: vec![], classified: vec![] };
    for c in CASES {
        let want: Vec<String> = c.want.iter().map(|s| s.to_string()).collect();
        let want_text: Vec<String> = want.iter().filter(|s| !s.starts_with('<')).cloned().collect();
        let cuts: Vec<Option<usize>> = std::iter::once(None).chain((1..c.input.len()).map(Some)).collect();
        for cut in cuts {
            rep.cases += 2;
            let mk = |what: &str, got: &Vec<String>, want: &Vec<String>| format!("{{\"what\":{:?},\"input\":{:?},\"cuts\":{},\"detail\":{:?}}}", what, c.input, cut.map_or("null".to_string(), |x| format!("[{x}]")), format!("got {:?} want {:?}", got, want));
            match run(c.input.as_bytes(), cut, true) {
                Err(e) => rep.violations.push(mk("rewriter failed", &vec![e], &want)),
                Ok(got) => {
                    if strip_ns(&got) != strip_ns(&want) {
                        let v = mk("tokens differ from the WHATWG parse (tree-builder feedback)", &got, &want);
                        match c.known_class { Some(k) => rep.classified.push((k.to_string(), v)), None => rep.violations.push(v) }
                    } else if got != want {
                        let v = mk("namespace_uri differs from the element's DOM namespace", &got, &want);
                        match c.ns_known_class { Some(k) => rep.classified.push((k.to_string(), v)), None => rep.violations.push(v) }
                    }
                }
            }
            // without an element handler (tag scanner, switching to the lexer only where needed) the text/comment stream is the same
            match run(c.input.as_bytes(), cut, false) {
                Err(e) => rep.violations.push(mk("rewriter failed (no element handler)", &vec![e], &want_text)),
                Ok(got) => if got != want_text {
                    let v = mk("text/comment stream differs from the WHATWG parse when no element handler is registered", &got, &want_text);
                    match c.known_class { Some(k) => rep.classified.push((k.to_string(), v)), None => rep.violations.push(v) }
                }
            }
            if rep.violations.len() >= 5 { return rep; }
        }
    }
    rep
}
