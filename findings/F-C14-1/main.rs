use lol_html::{doc_text, HtmlRewriter, Settings};
fn main() {
    let chunks: [&[u8]; 3] = [b"<p>ab", b"\xC3", b"\xA9cd</p>"];
    let mut locs = vec![];
    {
        let mut rw = HtmlRewriter::new(Settings::new().append_document_content_handler(doc_text!(|t| { let l = t.source_location().bytes(); locs.push((l.start, l.end, t.as_str().to_string(), t.last_in_text_node())); Ok(()) })), |_c: &[u8]| {});
        for c in chunks { rw.write(c).unwrap(); }
        rw.end().unwrap();
    }
    println!("{:?}", locs);
    // text node is bytes 3..9 ("ab", C3 A9, "cd"); chunks must be contiguous and cover it
    let mut pos = 3; let mut bad = false;
    for (s, e, _, _) in &locs { if *s != pos { println!("gap/overlap: chunk starts at {s}, expected {pos}"); bad = true; } pos = *e; }
    if pos != 9 { println!("coverage ends at {pos}, expected 9"); bad = true; }
    std::process::exit(if bad { 1 } else { 0 });
}
