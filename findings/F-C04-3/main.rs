// F-C04-3 (C04): `[attr^=""]`, `[attr$=""]` and `[attr~=""]` must never match (CSS Selectors: "if val is the empty string
// then the selector does not represent anything"); lol-html tested the *attribute's* value for emptiness instead of the
// selector's operand, so `[k^=""]` matched every element with a non-empty `k`, and `[k~=""]` matched `k=""`.
use lol_html::{element, HtmlRewriter, Settings};
use std::cell::RefCell;
use std::rc::Rc;
fn count(sel: &str, doc: &str) -> usize {
    let n = Rc::new(RefCell::new(0));
    let n2 = n.clone();
    let mut rw = HtmlRewriter::new(Settings::new().append_element_content_handler(element!(sel, move |_| { *n2.borrow_mut() += 1; Ok(()) })), |_: &[u8]| {});
    rw.write(doc.as_bytes()).unwrap();
    rw.end().unwrap();
    let r = *n.borrow();
    r
}
fn main() {
    let mut bad = 0;
    for (sel, doc) in [("[k^=\"\"]", "<b k=v>"), ("[k$=\"\"]", "<b k=v>"), ("[k~=\"\"]", "<b k=\"\">"), ("[k~=\"\"]", "<b k=\"a  b\">")] {
        let c = count(sel, doc);
        println!("{sel} on {doc}: matched {c} (CSS: 0)");
        if c != 0 { bad += 1; }
    }
    std::process::exit(if bad > 0 { 1 } else { 0 });
}
