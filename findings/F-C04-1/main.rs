// F-C04-1 (C04, known finding): `:not()` with a compound argument must negate the whole compound.
use lol_html::{element, HtmlRewriter, Settings};
use std::cell::RefCell;
use std::rc::Rc;
fn count(sel: &str, doc: &str) -> usize {
    let n = Rc::new(RefCell::new(0));
    let n2 = n.clone();
    let mut rw = HtmlRewriter::new(Settings::new().append_element_content_handler(element!(sel, move |_| { *n2.borrow_mut() += 1; Ok(()) })), |_: &[u8]| {});
    rw.write(doc.as_bytes()).unwrap();
    rw.end().unwrap();
    let r = *n.borrow();
    r
}
fn main() {
    // <a> is not `a.c` (no class), <b class=c> is not `a.c` (not an a): both must match :not(a.c); <a class=c> must not
    let c = count(":not(a.c)", "<a></a><b class=c></b><a class=c></a>");
    println!(":not(a.c) matched {c} of 3 start tags (CSS: 2)");
    std::process::exit(if c != 2 { 1 } else { 0 });
}
