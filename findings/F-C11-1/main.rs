use lol_html::{HtmlRewriter, Settings, MemorySettings, text};
fn run(input_chunks: &[&[u8]], max: usize, verbose: bool) -> bool {
    let mut out: Vec<u8> = vec![];
    let settings = Settings::new()
        .append_element_content_handler(text!("p", |_t| Ok(())))
        .with_memory_settings(MemorySettings::new().with_preallocated_parsing_buffer_size(0).with_max_allowed_memory_usage(max).with_graceful_bail_out_on_memory_limit_exceeded(true));
    let mut fed: Vec<u8> = vec![];
    let mut failed = false;
    {
        let mut rw = HtmlRewriter::new(settings, |c: &[u8]| out.extend_from_slice(c));
        for c in input_chunks {
            fed.extend_from_slice(c);
            if rw.write(c).is_err() { failed = true; break; }
        }
    }
    if verbose || (failed && out != fed) {
    println!("max={} failed={} fed={:?}\n   out={:?}\n   equal={}", max, failed, String::from_utf8_lossy(&fed), String::from_utf8_lossy(&out), out == fed);
    println!("   fed bytes {:x?}\n   out bytes {:x?}", fed, out);
    }
    failed && out != fed
}
fn main() {
    for m in 0..3000 { if run(&[b"<p>caf\xC3<"], m, false) { break; } }
    for m in 0..3000 { if run(&[b"<p>caf\xC3<", b"\xA9 xxxxxxxxxxxxxxxxxxxxxxxxxxxxxxxxxxxxxxxxxxxxxxxxxxxxxxxxxxxxxxxxxxxxxxxxxxxxxxxxxxxxxxxxxxxxxxxxxxxxxxxxxxxxxxxxxxxxxxxxxxxxxxxxxxxxxxxx"], m, false) {break;} }
    for m in 0..3000 { if run(&[b"<p>cafe<", b"e xxxxxxxxxxxxxxxxxxxxxxxxxxxxxxxxxxxxxxxxxxxxxxxxxxxxxxxxxxxxxxxxxxxxxxxxxxxxxxxxxxxxxxxxxxxxxxxxxxxxxxxxxxxxxxxxxxxxxxxxxxxxxxxxxxxxxxxx"], m, false) {break;} }
}
