// F-C10-1 (C10, known finding): open-element bookkeeping that is not charged to the memory limit.
use lol_html::{HtmlRewriter, MemorySettings, Settings};
fn main() {
    let n = 2_000_000;
    let doc = "<svg>".repeat(n);
    let settings = Settings::new().with_memory_settings(MemorySettings::new().with_preallocated_parsing_buffer_size(0).with_max_allowed_memory_usage(64));
    let mut rw = HtmlRewriter::new(settings, |_: &[u8]| {});
    let r = rw.write(doc.as_bytes());
    println!("{n} nested <svg> under max_allowed_memory_usage=64: write -> {:?} (C10: MemoryLimitExceeded expected, the namespace stack holds {n} entries)", r.as_ref().map_err(|e| e.to_string()));
    std::process::exit(if r.is_ok() { 1 } else { 0 });
}
