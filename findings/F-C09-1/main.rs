// F-C09-1: tag_start stays marked after a bogus end tag (`</ x>`) / after `<script><!--</scrip1`, so in tag-scan mode (no
// handlers) every later byte is held back.  Expected (C09): after ordinary text nothing is held back.
use lol_html::{HtmlRewriter, Settings};
fn pending_after(prefix: &[u8]) -> (usize, usize) {
    let mut out = 0usize;
    let mut rw = HtmlRewriter::new(Settings::new(), |c: &[u8]| out += c.len());
    rw.write(prefix).unwrap();
    let _ = &rw;
    drop(rw);
    (prefix.len(), out)
}
fn main() {
    let mut bad = 0;
    let mut a = b"</ x>".to_vec(); a.extend(std::iter::repeat(b'a').take(300));
    let mut b = b"<script><!--</scrip1".to_vec(); b.extend(std::iter::repeat(b'a').take(100));
    for inp in [a, b] {
        let (n, out) = pending_after(&inp);
        println!("in={} out={} held_back={}", n, out, n - out);
        if n != out { bad += 1; }
    }
    std::process::exit(if bad > 0 { 1 } else { 0 });
}
