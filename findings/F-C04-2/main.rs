use lol_html::{element, HtmlRewriter, Settings};
fn count(sel: &str, html: &str) -> usize {
    let mut n = 0;
    {
        let mut rw = HtmlRewriter::new(Settings::new().append_element_content_handler(element!(sel, |_el| { n += 1; Ok(()) })), |_c: &[u8]| {});
        rw.write(html.as_bytes()).unwrap(); rw.end().unwrap();
    }
    n
}
fn main() {
    // :nth-child(n + B) with B = -2147483648 matches every child (n >= 0: n + B == index has the solution n = index - B)
    let html = "<div><p>1</p><p>2</p><p>3</p></div>";
    let a = count("p:nth-child(n-2147483648)", html);
    let b = count("p:nth-child(n-2147483647)", html);
    let c = count("p:nth-child(n-5)", html);
    println!("n-2147483648 -> {a}, n-2147483647 -> {b}, n-5 -> {c}   (all should be 3)");
    std::process::exit(if a == 3 && b == 3 && c == 3 { 0 } else { 1 });
}
