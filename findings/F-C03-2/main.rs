// F-C03-2, F-C03-3 (C03) and F-C16-1 (C16), known findings: tree-builder feedback for foreign content deviates from the standard.
use lol_html::{element, text, HtmlRewriter, Settings};
use std::cell::RefCell;
use std::rc::Rc;
fn run(doc: &str) -> Vec<String> {
    let n = Rc::new(RefCell::new(vec![]));
    let (n2, n3) = (n.clone(), n.clone());
    let mut rw = HtmlRewriter::new(Settings::new()
        .append_element_content_handler(element!("*", move |el| { n2.borrow_mut().push(format!("<{}:{}>", el.tag_name(), el.namespace_uri().rsplit('/').next().unwrap())); Ok(()) }))
        .append_element_content_handler(text!("*", move |t| { if !t.as_str().is_empty() { n3.borrow_mut().push(format!("T:{}", t.as_str())); } Ok(()) })), |_: &[u8]| {});
    rw.write(doc.as_bytes()).unwrap();
    rw.end().unwrap();
    let r = n.borrow().clone();
    r
}
fn main() {
    let mut bad = 0;
    // F-C03-2: <svg/> is popped at once; <style> is an HTML raw-text element and <b> is text
    let r = run("<svg/><style><b></b></style>");
    println!("F-C03-2 {:?}", r);
    if r.iter().any(|s| s.starts_with("<b:")) { bad += 1; }
    // F-C03-3: </title> closes the HTML title only; <style> is still inside <desc> (HTML) => <b> is text
    let r = run("<svg><desc><title>x</title><style><b></b></style></desc>");
    println!("F-C03-3 {:?}", r);
    if r.iter().any(|s| s.starts_with("<b:")) { bad += 1; }
    // F-C16-1: <desc> is an SVG element
    let r = run("<svg><desc>");
    println!("F-C16-1 {:?}", r);
    if !r.contains(&"<desc:svg>".to_string()) { bad += 1; }
    std::process::exit(if bad > 0 { 1 } else { 0 });
}
