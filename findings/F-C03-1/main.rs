// F-C03-1 (C03, C06): `<script a=>` / `<textarea a=>` -- before_attribute_value_state's `>` arm switched to data_state instead
// of the text state selected by the tree-builder feedback.  In full-lexing mode (e.g. a document-level text handler keeps the
// lexer on) the raw-text content was tokenized as markup: `<b>` inside the script became an element.  In tag-scan mode the
// bookmark hand-over happened to repair the state, so the matches depended on which *other* handlers were registered.
use lol_html::{doc_text, element, HtmlRewriter, Settings};
fn elements(input: &str, with_text_observer: bool) -> Vec<String> {
    let mut hits = vec![];
    {
        let mut s = Settings::new().append_element_content_handler(element!("*", |el| { hits.push(el.tag_name()); Ok(()) }));
        if with_text_observer { s = s.append_document_content_handler(doc_text!(|_t| Ok(()))); }
        let mut rw = HtmlRewriter::new(s, |_c: &[u8]| {});
        rw.write(input.as_bytes()).unwrap();
        rw.end().unwrap();
    }
    hits
}
fn main() {
    let mut bad = 0;
    for input in ["<script a=><b>x</b></script>", "<textarea a=><b>x</b></textarea><i>", "<style a=><b></style>"] {
        let a = elements(input, false);
        let b = elements(input, true);
        println!("{input:?}: scan-mode elements {a:?}, lex-mode elements {b:?}");
        if a != b || b.iter().any(|n| n == "b") { bad += 1; }
    }
    std::process::exit(if bad > 0 { 1 } else { 0 });
}
