// F-C13-1 (C13): attribute values, comment text and names were decoded with Encoding::decode(), which sniffs a byte-order
// mark: a value that merely begins with EF BB BF / FF FE / FE FF was decoded as UTF-8 / UTF-16 instead of the document encoding.
use lol_html::{comments, element, AsciiCompatibleEncoding, HtmlRewriter, Settings};
use std::cell::RefCell;
use std::rc::Rc;
fn main() {
    let enc = encoding_rs::WINDOWS_1252;
    let seen = Rc::new(RefCell::new(vec![]));
    let (s1, s2) = (seen.clone(), seen.clone());
    let settings = Settings::new().with_encoding(AsciiCompatibleEncoding::new(enc).unwrap())
        .append_element_content_handler(element!("a", move |el| { s1.borrow_mut().push(el.get_attribute("title").unwrap()); Ok(()) }))
        .append_element_content_handler(comments!("p", move |c| { s2.borrow_mut().push(c.text()); Ok(()) }));
    let mut rw = HtmlRewriter::new(settings, |_: &[u8]| {});
    rw.write(b"<a title=\"\xEF\xBB\xBFcaf\xE9\"></a><p><!--\xFF\xFEab--></p>").unwrap();
    rw.end().unwrap();
    let want = vec![enc.decode_without_bom_handling(b"\xEF\xBB\xBFcaf\xE9").0.into_owned(), enc.decode_without_bom_handling(b"\xFF\xFEab").0.into_owned()];
    println!("read {:?}\nwant {:?}", seen.borrow(), want);
    std::process::exit(if *seen.borrow() != want { 1 } else { 0 });
}
