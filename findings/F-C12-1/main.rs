// F-C12-1 (C12): a zero-length chunk reached the sink mid-stream when a token serialised an empty piece
// (`Comment::set_text("")`, `EndTag::set_name("")`, `StartTag::set_name("")`).
use lol_html::{comments, element, end_tag, HtmlRewriter, Settings};
fn main() {
    let mut lens: Vec<usize> = vec![];
    {
        let mut rw = HtmlRewriter::new(
            Settings::new()
                .append_element_content_handler(comments!("*", |c| { c.set_text("").unwrap(); Ok(()) }))
                .append_element_content_handler(element!("p", |el| {
                    el.on_end_tag(end_tag!(|end| { end.set_name(""); Ok(()) }))?;
                    Ok(())
                })),
            |c: &[u8]| lens.push(c.len()));
        rw.write(b"<div><!--x-->tail<p>a</p>z").unwrap();
        rw.end().unwrap();
    }
    println!("chunk lengths: {:?}", lens);
    let zero_mid = lens[..lens.len() - 1].iter().any(|&l| l == 0);
    let last_zero = *lens.last().unwrap() == 0;
    println!("zero-length chunk before the end: {zero_mid}; last chunk is zero-length: {last_zero}");
    std::process::exit(if zero_mid || !last_zero { 1 } else { 0 });
}
