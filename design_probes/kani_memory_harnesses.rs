// appended to src/memory/arena.rs in a scratch copy
#[cfg(kani)]
mod verif_kani_arena {
    use super::*;
    #[kani::proof]
    #[kani::unwind(10)]
    fn arena_append_accounting() {
        let max: usize = kani::any();
        let limiter = SharedMemoryLimiter::new(max);
        let pre: usize = kani::any();
        kani::assume(pre <= 4 && pre <= max);
        let mut arena = Arena::new(limiter.clone(), pre);
        let a: [u8; 4] = kani::any();
        let la: usize = kani::any();
        kani::assume(la <= 4);
        let b: [u8; 4] = kani::any();
        let lb: usize = kani::any();
        kani::assume(lb <= 4);
        let r1 = arena.append(&a[..la]);
        if r1.is_ok() {
            assert!(arena.bytes() == &a[..la]);
            assert!(limiter.verif_usage() <= max);
            assert!(limiter.verif_usage() >= arena.data.capacity().min(pre.max(la)));
            let before = limiter.verif_usage();
            let cap = arena.data.capacity();
            let r2 = arena.append(&b[..lb]);
            if r2.is_ok() {
                assert!(arena.bytes().len() == la + lb);
                assert!(&arena.bytes()[..la] == &a[..la]);
                assert!(&arena.bytes()[la..] == &b[..lb]);
                assert!(limiter.verif_usage() <= max);
            } else {
                assert!(arena.bytes() == &a[..la]);
                assert!(before + (la + lb - cap) > max);
            }
        }
    }
}

// appended to src/memory/limiter.rs in a scratch copy
#[cfg(kani)]
impl SharedMemoryLimiter {
    pub(crate) fn verif_usage(&self) -> usize { self.current_usage.load(Ordering::Relaxed) }
}
#[cfg(kani)]
mod verif_kani_limiter {
    use super::*;
    #[kani::proof]
    fn increase_usage_contract() {
        let max: usize = kani::any();
        let l = SharedMemoryLimiter::new(max);
        let prev: usize = kani::any();
        l.current_usage.store(prev, Ordering::Relaxed);
        let n: usize = kani::any();
        kani::assume(prev.checked_add(n).is_some());
        let r = l.increase_usage(n);
        assert!(r.is_ok() == (prev + n <= max));
        assert!(l.verif_usage() == prev + n);
    }
}
