use vstd::prelude::*;
verus! {

#[derive(Clone, Copy, Default, Debug)]
pub struct Range {
    pub start: usize,
    pub end: usize,
}

pub struct Bytes<'b>(pub &'b [u8]);

impl<'b> Bytes<'b> {
    pub open spec fn view(&self) -> Seq<u8> { self.0@ }

    pub fn slice(&self, range: Range) -> (r: Self)
        ensures
            range.start <= range.end <= self@.len() ==> r@ == self@.subrange(range.start as int, range.end as int),
            r@.len() <= self@.len(),
    {
        // Optimizes to panic-free branchless
        let end = range.end.min(self.0.len());
        let start = range.start.min(end);
        Self(&self.0[start..end])
    }
    pub fn is_empty(&self) -> (r: bool) ensures r == (self@.len() == 0) { self.0.len() == 0 }
}

pub trait OutputSink {
    spec fn out(&self) -> Seq<u8>;
    fn handle_chunk(&mut self, chunk: &[u8])
        requires chunk@.len() > 0,
        ensures final(self).out() == old(self).out() + chunk@;
}

pub struct Lexeme<'i> {
    pub input: Bytes<'i>,
    pub raw_range: Range,
}
impl<'i> Lexeme<'i> {
    pub fn raw_range(&self) -> (r: Range) ensures r == self.raw_range { self.raw_range }
    pub fn input(&self) -> (r: &Bytes<'i>) ensures r == &self.input { &self.input }
}

pub struct DispatcherDelegate<O> {
    pub output_sink: O,
    pub remaining_content_start: usize,
    pub emission_enabled: bool,
}

impl<O: OutputSink> DispatcherDelegate<O> {
    fn emit_chunk_before_lexeme(&mut self, lexeme: &Lexeme<'_>)
        requires
            old(self).remaining_content_start <= lexeme.raw_range.start <= lexeme.raw_range.end <= lexeme.input@.len(),
        ensures
            final(self).remaining_content_start == lexeme.raw_range.start,
            final(self).emission_enabled == old(self).emission_enabled,
            old(self).emission_enabled ==> final(self).output_sink.out() == old(self).output_sink.out() + lexeme.input@.subrange(old(self).remaining_content_start as int, lexeme.raw_range.start as int),
            !old(self).emission_enabled ==> final(self).output_sink.out() == old(self).output_sink.out(),
    {
        let lexeme_range = lexeme.raw_range();

        let chunk_range = Range {
            start: self.remaining_content_start,
            end: lexeme_range.start,
        };

        let chunk = lexeme.input().slice(chunk_range);

        if self.emission_enabled && !chunk.is_empty() {
            self.output_sink.handle_chunk(&chunk.0);
        }

        self.remaining_content_start = lexeme_range.start;
    }

    fn flush_remaining_input(&mut self, input: &[u8], consumed_byte_count: usize)
        requires old(self).remaining_content_start <= consumed_byte_count <= input@.len(),
        ensures
            final(self).remaining_content_start == 0,
            old(self).emission_enabled ==> final(self).output_sink.out() == old(self).output_sink.out() + input@.subrange(old(self).remaining_content_start as int, consumed_byte_count as int),
    {
        if self.emission_enabled {
            let output = input
                .get(self.remaining_content_start..consumed_byte_count)
                .unwrap_or_default();

            if !output.is_empty() {
                self.output_sink.handle_chunk(output);
            }
        }

        self.remaining_content_start = 0;
    }
}
}
fn main() {}
