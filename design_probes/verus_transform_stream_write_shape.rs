use vstd::prelude::*;
verus! {
pub struct MemErr;
pub enum RewritingError { MemoryLimitExceeded(MemErr), ContentHandlerError, ParsingAmbiguity }

pub struct Disp { pub out: Ghost<Seq<u8>>, pub rcs: usize }
impl Disp {
    #[verifier::external_body]
    pub fn flush_remaining_input(&mut self, input: &[u8], consumed: usize)
        requires old(self).rcs <= consumed <= input@.len()
        ensures final(self).rcs == 0, final(self).out@ == old(self).out@ + input@.subrange(old(self).rcs as int, consumed as int)
    { unimplemented!() }
}
pub struct Parser { pub d: Disp }
impl Parser {
    pub fn get_dispatcher(&mut self) -> (r: &mut Disp)
        ensures *r == old(self).d, *final(r) == final(self).d
    { &mut self.d }

    #[verifier::external_body]
    pub fn parse(&mut self, input: &[u8], last: bool) -> (r: Result<usize, RewritingError>)
        requires old(self).d.rcs == 0
        ensures match r { Ok(c) => c <= input@.len() && final(self).d.rcs <= c && final(self).d.out@ == old(self).d.out@ + input@.subrange(0, final(self).d.rcs as int), Err(_) => true }
    { unimplemented!() }
}
pub struct TS { pub parser: Parser }
impl TS {
    pub fn w(&mut self, chunk: &[u8]) -> (r: Result<(), RewritingError>)
        requires old(self).parser.d.rcs == 0
        ensures r is Ok ==> exists|c: int| 0 <= c <= chunk@.len() && final(self).parser.d.out@ == old(self).parser.d.out@ + chunk@.subrange(0, c)
    {
        let consumed_byte_count = match self.parser.parse(chunk, false) {
            Ok(c) => c,
            Err(e) => { return Err(e); }
        };
        let ghost mid = self.parser.d;
        self.parser
            .get_dispatcher()
            .flush_remaining_input(chunk, consumed_byte_count);
        proof {
            let c = consumed_byte_count as int;
 assert(old(self).parser.d.out@ + chunk@.subrange(0, mid.rcs as int) + chunk@.subrange(mid.rcs as int, c) =~= old(self).parser.d.out@ + chunk@.subrange(0, c));
            
        }
        Ok(())
    }
}
}
fn main() {}
