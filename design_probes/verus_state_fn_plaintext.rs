use vstd::prelude::*;
verus! {
#[verifier::external_body]
pub struct RewritingError { _p: () }
pub enum ActionError { RewritingError(RewritingError), EndOfInput { consumed_byte_count: usize }, Internal }
pub type ActionResult<T = ()> = Result<T, Box<ActionError>>;
pub type StateResult = ActionResult<()>;
pub enum StateTag { plaintext_state, data_state, tag_open_state }

pub trait SmView {
    spec fn v_next_pos(&self) -> int;
    spec fn v_low(&self) -> int;
    spec fn v_last(&self) -> bool;
}
pub open spec fn sm_inv<T: SmView + ?Sized>(s: &T, input: &[u8]) -> bool {
        0 <= s.v_low() <= s.v_next_pos() <= input@.len() + 1
}
pub trait StateMachineActions: SmView {
    type Context;
    fn emit_text(&mut self, context: &mut Self::Context, input: &[u8]) -> (r: ActionResult)
        requires sm_inv(old(self), input), old(self).v_next_pos() >= 1
        ensures final(self).v_next_pos() == old(self).v_next_pos(), final(self).v_last() == old(self).v_last(), sm_inv(final(self), input),
                 r matches Err(e) ==> !(*e is EndOfInput);
    fn emit_text_and_eof(&mut self, context: &mut Self::Context, input: &[u8]) -> (r: ActionResult)
        requires sm_inv(old(self), input), old(self).v_next_pos() >= 1
        ensures final(self).v_next_pos() == old(self).v_next_pos(), final(self).v_last() == old(self).v_last(), sm_inv(final(self), input),
                 r matches Err(e) ==> !(*e is EndOfInput);
}
pub trait StateMachine: StateMachineActions {
    fn consume_ch(&mut self, input: &[u8]) -> (r: Option<u8>)
        requires sm_inv(old(self), input), old(self).v_next_pos() <= input@.len()
        ensures final(self).v_next_pos() == old(self).v_next_pos() + 1, final(self).v_low() == old(self).v_low(), final(self).v_last() == old(self).v_last(),
            r == (if old(self).v_next_pos() < input@.len() { Some(input@[old(self).v_next_pos()]) } else { None::<u8> });
    fn is_last_input(&self) -> (r: bool) ensures r == self.v_last();
    fn set_state(&mut self, s: StateTag)
        ensures final(self).v_next_pos() == old(self).v_next_pos(), final(self).v_low() == old(self).v_low(), final(self).v_last() == old(self).v_last();
    fn break_on_end_of_input(&mut self, input: &[u8]) -> (r: StateResult)
        requires sm_inv(old(self), input), old(self).v_next_pos() >= 1
        ensures r matches Err(e) && (*e matches ActionError::EndOfInput { consumed_byte_count } && consumed_byte_count <= input@.len());

    fn plaintext_state(&mut self, context: &mut Self::Context,
                input: &[u8]) -> (r: StateResult)
        requires sm_inv(old(self), input), old(self).v_next_pos() <= input@.len()
        ensures r is Ok ==> sm_inv(final(self), input) && final(self).v_next_pos() <= input@.len(),
                r matches Err(e) ==> (*e matches ActionError::EndOfInput { consumed_byte_count } ==> consumed_byte_count <= input@.len()),
    {
                loop 
                    invariant sm_inv(&*self, input), self.v_next_pos() <= input@.len()
                    decreases input@.len() - self.v_next_pos()
                {
                    let ch = self.consume_ch(input);

                    match ch {
                        None if !self.is_last_input() => {
                            ;
                            self.emit_text(context, input)?;
                            ;
                            ;
                            return self.break_on_end_of_input(input);
                            ;
                        }
                        None => {
                            if self.is_last_input() {
                                ;
                                self.emit_text_and_eof(context, input)?;
                                ;
                                ;
                            }
                            return self.break_on_end_of_input(input);
                            ;
                        }
                        Some(_) => { ; }
                    };
                    ;
                };
    }
}
}
fn main() {}
