use vstd::prelude::*;
verus! {
pub enum ActionError { EndOfInput { consumed_byte_count: usize }, Internal }
pub type ActionResult<T = ()> = Result<T, Box<ActionError>>;
pub type StateResult = ActionResult<()>;

pub trait LexemeSink { }
pub struct Ctx<S> { pub s: S }


pub struct Lexer<S> {
    pub next_pos: usize,
    pub is_last_input: bool,
    pub lexeme_start: usize,
    pub token_part_start: usize,
    pub state: core::marker::PhantomData<S>,
}

pub trait Align { 
    spec fn aligned(&self, old: &Self, offset: usize) -> bool;
    fn align(&mut self, offset: usize) ensures final(self).aligned(old(self), offset); }

impl Align for usize {
    open spec fn aligned(&self, old: &Self, offset: usize) -> bool {
        *self == if *old >= offset { (*old - offset) as usize } else { *old }
    }
    #[inline]
    fn align(&mut self, offset: usize) {
        if *self >= offset {
            *self -= offset;
        }
    }
}

impl<S: LexemeSink> Lexer<S> {
    fn pos(&self) -> (r: usize) requires self.next_pos >= 1 ensures r == self.next_pos - 1 { self.next_pos - 1 }
    fn set_pos(&mut self, pos: usize) ensures final(self).next_pos == pos, final(self).lexeme_start == old(self).lexeme_start { self.next_pos = pos; }
    fn get_consumed_byte_count(&self, _input: &[u8]) -> (r: usize) ensures r == self.lexeme_start {
        self.lexeme_start
    }
    fn adjust_for_next_input(&mut self) 
      ensures final(self).lexeme_start == 0, final(self).next_pos == old(self).next_pos
    {
        self.token_part_start.align(self.lexeme_start);
        self.lexeme_start = 0;
    }
    fn break_on_end_of_input(&mut self, input: &[u8]) -> (r: StateResult)
        requires old(self).next_pos >= 1, old(self).lexeme_start <= old(self).next_pos - 1
        ensures r is Err, 
    {
        let consumed_byte_count = self.get_consumed_byte_count(input);

        if !self.is_last_input {
            self.adjust_for_next_input();
        }

        self.set_pos(self.pos() - consumed_byte_count);

        Err(Box::new(ActionError::EndOfInput {
            consumed_byte_count,
        }))
    }
}
}
fn main() {}
