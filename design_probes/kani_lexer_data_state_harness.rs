// Design-phase probe (DESIGN.md §2): appended to src/parser/lexer/mod.rs in a scratch copy of /repo,
// together with `ParserContext::verif_new/verif_sink` (#[cfg(kani)] impl appended to src/parser/mod.rs)
// and the memchr shim patched in through [patch.crates-io]. Result: SUCCESSFUL, 67 s, 1898 checks.
#[cfg(kani)]
mod verif_kani_lexer {
    use super::*;
    use crate::parser::state_machine::{ActionError, StateMachine};

    pub(crate) struct Rec { last_end: usize, ok: bool }
    impl LexemeSink for Rec {
        fn handle_tag(&mut self, lexeme: &TagLexeme<'_>) -> ActionResult<ParserDirective> {
            let r = lexeme.raw_range();
            self.ok &= r.start == self.last_end && r.end > r.start && r.end <= lexeme.input().len();
            self.last_end = r.end;
            Ok(ParserDirective::Lex)
        }
        fn handle_non_tag_content(&mut self, lexeme: &NonTagContentLexeme<'_>) -> ActionResult {
            let r = lexeme.raw_range();
            self.ok &= r.start == self.last_end && r.end >= r.start && r.end <= lexeme.input().len();
            self.last_end = r.end;
            Ok(())
        }
    }

    fn inv<S: LexemeSink>(l: &Lexer<S>, len: usize) -> bool {
        l.lexeme_start <= l.next_pos && l.next_pos <= len + 1
    }

    #[kani::proof]
    #[kani::unwind(6)]
    fn data_state_preserves_inv() {
        let input: [u8; 4] = kani::any();
        let len: usize = kani::any();
        kani::assume(len <= 4);
        let input = &input[..len];
        let mut l: Lexer<Rec> = Lexer::new();
        l.next_pos = kani::any();
        l.lexeme_start = kani::any();
        l.is_last_input = kani::any();
        kani::assume(l.next_pos <= len);
        kani::assume(inv(&l, len));
        let ls = l.lexeme_start;
        let mut ctx = crate::parser::ParserContext::verif_new(Rec { last_end: ls, ok: true }, kani::any());
        let r = Lexer::data_state(&mut l, &mut ctx, input);
        assert!(ctx.verif_sink().ok);
        match r {
            Ok(()) => assert!(inv(&l, len)),
            Err(e) => match *e {
                ActionError::EndOfInput { consumed_byte_count } => {
                    assert!(consumed_byte_count <= len);
                    assert!(consumed_byte_count == ctx.verif_sink().last_end);
                }
                _ => assert!(false),
            },
        }
    }
}
