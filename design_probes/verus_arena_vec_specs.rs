#![feature(allocator_api)]
use vstd::prelude::*;
verus! {

pub struct MemoryLimitExceededError;

pub uninterp spec fn vec_cap<T>(v: &Vec<T>) -> nat;

pub assume_specification<T, A: std::alloc::Allocator> [std::vec::Vec::<T, A>::capacity] (v: &std::vec::Vec<T, A>) -> (r: usize)
    ensures r >= v@.len();

pub assume_specification<T, A: std::alloc::Allocator> [std::vec::Vec::<T, A>::try_reserve_exact] (v: &mut std::vec::Vec<T, A>, n: usize) -> (r: std::result::Result<(), std::collections::TryReserveError>)
    ensures final(v)@ == old(v)@;

pub struct Arena {
    pub data: Vec<u8>,
}

impl Arena {
    pub open spec fn view(&self) -> Seq<u8> { self.data@ }

    pub fn shift(&mut self, byte_count: usize)
        requires byte_count <= old(self).data.len(),
        ensures final(self)@ == old(self)@.subrange(byte_count as int, old(self)@.len() as int),
    {
        self.data.copy_within(byte_count.., 0);
        self.data.truncate(self.data.len() - byte_count);
    }

    pub fn bytes(&self) -> (r: &[u8])
        ensures r@ == self@
    {
        &self.data
    }
    pub fn app(&mut self, slice: &[u8])
        ensures final(self)@ == old(self)@ + slice@
    {
        self.data.extend_from_slice(slice);
    }
    pub fn clr(&mut self) ensures final(self)@.len() == 0 { self.data.clear(); }
}
}
fn main() {}
