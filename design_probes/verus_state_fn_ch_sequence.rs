use vstd::prelude::*;
verus! {
#[verifier::external_body]
pub struct RewritingError { _p: () }
pub enum ActionError { RewritingError(RewritingError), EndOfInput { consumed_byte_count: usize }, Internal }
pub type ActionResult<T = ()> = Result<T, Box<ActionError>>;
pub type StateResult = ActionResult<()>;
#[allow(non_camel_case_types)]
pub enum StateTag { plaintext_state, data_state, tag_open_state, cdata_section_state }

pub trait SmView {
    spec fn v_next_pos(&self) -> int;
    spec fn v_low(&self) -> int;
    spec fn v_last(&self) -> bool;
}
pub open spec fn sm_inv<T: SmView + ?Sized>(s: &T, input: &[u8]) -> bool {
    0 <= s.v_low() <= s.v_next_pos() <= input@.len() + 1
}
// "same cursor" frame used by most actions
pub open spec fn same_cursor<T: SmView + ?Sized>(a: &T, b: &T) -> bool {
    a.v_next_pos() == b.v_next_pos() && a.v_last() == b.v_last()
}
pub open spec fn ok_result(r: StateResult, input: &[u8]) -> bool {
    r matches Err(e) ==> (*e matches ActionError::EndOfInput { consumed_byte_count } ==> consumed_byte_count <= input@.len())
}

pub trait StateMachineActions: SmView {
    type Context;
    fn emit_text(&mut self, context: &mut Self::Context, input: &[u8]) -> (r: ActionResult)
        requires sm_inv(old(self), input), old(self).v_next_pos() >= 1
        ensures same_cursor(final(self), old(self)), sm_inv(final(self), input), r matches Err(e) ==> !(*e is EndOfInput);
    fn emit_text_and_eof(&mut self, context: &mut Self::Context, input: &[u8]) -> (r: ActionResult)
        requires sm_inv(old(self), input), old(self).v_next_pos() >= 1
        ensures same_cursor(final(self), old(self)), sm_inv(final(self), input), r matches Err(e) ==> !(*e is EndOfInput);
    fn emit_raw_without_token(&mut self, context: &mut Self::Context, input: &[u8]) -> (r: ActionResult)
        requires sm_inv(old(self), input), 1 <= old(self).v_next_pos() <= input@.len()
        ensures same_cursor(final(self), old(self)), sm_inv(final(self), input), r matches Err(e) ==> !(*e is EndOfInput);
    fn leave_cdata(&mut self, context: &mut Self::Context, input: &[u8])
        ensures same_cursor(final(self), old(self)), final(self).v_low() == old(self).v_low();
}
pub trait StateMachine: StateMachineActions {
    fn consume_ch(&mut self, input: &[u8]) -> (r: Option<u8>)
        requires sm_inv(old(self), input), old(self).v_next_pos() <= input@.len()
        ensures final(self).v_next_pos() == old(self).v_next_pos() + 1, final(self).v_low() == old(self).v_low(), final(self).v_last() == old(self).v_last(),
            r == (if old(self).v_next_pos() < input@.len() { Some(input@[old(self).v_next_pos()]) } else { None::<u8> });
    fn unconsume_ch(&mut self)
        requires old(self).v_next_pos() >= 1, old(self).v_low() <= old(self).v_next_pos() - 1
        ensures final(self).v_next_pos() == old(self).v_next_pos() - 1, final(self).v_low() == old(self).v_low(), final(self).v_last() == old(self).v_last();
    fn consume_several(&mut self, count: usize)
        ensures final(self).v_next_pos() == old(self).v_next_pos() + count, final(self).v_low() == old(self).v_low(), final(self).v_last() == old(self).v_last();
    fn lookahead(&self, input: &[u8], offset: usize) -> (r: Option<u8>)
        requires self.v_next_pos() >= 1, offset >= 1
        ensures r == (if self.v_next_pos() + offset - 1 < input@.len() { Some(input@[self.v_next_pos() + offset - 1]) } else { None::<u8> });
    fn enter_ch_sequence_matching(&mut self)
        requires old(self).v_next_pos() >= 1
        ensures same_cursor(final(self), old(self)), final(self).v_low() <= old(self).v_low(), final(self).v_low() >= 0,
                final(self).v_low() == old(self).v_low() || final(self).v_low() == old(self).v_next_pos() - 1 ;
    fn leave_ch_sequence_matching(&mut self)
        ensures same_cursor(final(self), old(self)), final(self).v_low() <= final(self).v_next_pos(), final(self).v_low() >= 0 ;
    fn is_last_input(&self) -> (r: bool) ensures r == self.v_last();
    fn set_state(&mut self, s: StateTag)
        ensures same_cursor(final(self), old(self)), final(self).v_low() == old(self).v_low();
    fn break_on_end_of_input(&mut self, input: &[u8]) -> (r: StateResult)
        requires sm_inv(old(self), input), old(self).v_next_pos() >= 1
        ensures r matches Err(e) && (*e matches ActionError::EndOfInput { consumed_byte_count } && consumed_byte_count <= input@.len());

            fn cdata_section_bracket_state(&mut self,
                context: &mut Self::Context, input: &[u8]) -> (r: StateResult)
        requires sm_inv(old(self), input), old(self).v_next_pos() <= input@.len()
        ensures r is Ok ==> sm_inv(final(self), input) && final(self).v_next_pos() <= input@.len(),
                ok_result(r, input),
            {

                #[allow(clippy :: never_loop)]
                loop 
                    invariant sm_inv(&*self, input), self.v_next_pos() <= input@.len()
                    decreases input@.len() - self.v_next_pos()
                {
                    let ch = self.consume_ch(input);
                    self.enter_ch_sequence_matching();
                    match ch {
                        Some(ch) if ch == b']' => {
                            {
                                {
                                    let ch = self.lookahead(input, 1);
                                    match ch {
                                        Some(ch) if ch == b'>' => {
                                            {
                                                self.consume_several(1);
                                                self.leave_ch_sequence_matching();
                                                ;
                                                self.emit_raw_without_token(context, input)?;
                                                ;
                                                ;
                                                self.leave_cdata(context, input);
                                                ;
                                                ;
                                                self.set_state(StateTag::data_state);
                                                return Ok(());
                                                ;

                                                #[allow(unreachable_code)]
                                                { continue; }
                                            }
                                        }
                                        None if !self.is_last_input() => {
                                            return self.break_on_end_of_input(input);
                                        }
                                        _ => self.leave_ch_sequence_matching(),
                                    };
                                };
                            }
                        }
                        None if !self.is_last_input() => {
                            return self.break_on_end_of_input(input);
                        }
                        _ => self.leave_ch_sequence_matching(),
                    };
                    ;

                    #[deny(unreachable_patterns)]
                    match ch {
                        None => {
                            if self.is_last_input() {
                                ;
                                self.emit_text_and_eof(context, input)?;
                                ;
                                ;
                            }
                            return self.break_on_end_of_input(input);
                            ;
                        }
                        Some(_) => {
                            ;
                            self.emit_text(context, input)?;
                            ;
                            ;
                            self.unconsume_ch();
                            self.set_state(StateTag::cdata_section_state);
                            return Ok(());
                            ;
                        }
                    };
                    ;
                };
            }
}
}
fn main() {}
