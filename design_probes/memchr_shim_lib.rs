//! Naive reference implementation of the memchr API subset used by lol_html (verification shim).
pub fn memchr(n: u8, h: &[u8]) -> Option<usize> { let mut i = 0; while i < h.len() { if h[i] == n { return Some(i); } i += 1; } None }
pub fn memchr2(a: u8, b: u8, h: &[u8]) -> Option<usize> { let mut i = 0; while i < h.len() { if h[i] == a || h[i] == b { return Some(i); } i += 1; } None }
pub fn memchr3(a: u8, b: u8, c: u8, h: &[u8]) -> Option<usize> { let mut i = 0; while i < h.len() { if h[i] == a || h[i] == b || h[i] == c { return Some(i); } i += 1; } None }
