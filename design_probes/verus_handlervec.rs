use vstd::prelude::*;
use std::num::NonZero;
verus! {
pub type Locator = NonZero<u32>;

pub struct HandlerVecItem<H> {
    pub handler: H,
    pub user_count: u32,
}

pub struct HandlerVec<H> {
    pub items: Vec<HandlerVecItem<H>>,
    pub user_count: u32,
}

pub open spec fn sum_counts<H>(s: Seq<HandlerVecItem<H>>) -> int
    decreases s.len()
{
    if s.len() == 0 { 0 } else { sum_counts(s.drop_last()) + s.last().user_count as int }
}

fn locator_to_idx(locator: Locator) -> (r: usize)
    ensures r == locator.get() - 1
{
    (locator.get() - 1) as usize
}

impl<H> HandlerVec<H> {
    pub open spec fn hv(&self) -> bool { self.user_count as int == sum_counts(self.items@) }

    pub fn inc_user_count(&mut self, idx: Locator)
        requires old(self).hv(), old(self).user_count < u32::MAX,
        ensures final(self).hv(), final(self).items@.len() == old(self).items@.len(),
    {
        let Some(item) = self.items.get_mut(locator_to_idx(idx)) else {
            return;
        };
        item.user_count += 1;
        self.user_count += 1;
    }

    pub fn has_active(&self) -> (r: bool)
        requires self.hv()
        ensures r == (sum_counts(self.items@) > 0)
    {
        self.user_count > 0
    }
}
}
fn main() {}
