// U-STK: open-element stack leaf decisions (C04/C05: "elements are closed ... immediately if void, or by self-closing syntax in
// foreign content").  Full domain of tag-name hashes x namespaces x ESI flag: complete.

//@harness stack_directive_void_and_foreign | complete | all u64 name hashes x 3 namespaces x esi flag, loop over the fixed void list fully unwound | C04,C05,C16
//@append src/selectors_vm/stack.rs
#[cfg(kani)]
mod verif_kani_stack {
    use super::*;
    use crate::html::LocalNameHash;
    struct D(DenseHashSet);
    impl ElementData for D {
        fn matched_ids_mut(&mut self) -> &mut DenseHashSet { &mut self.0 }
        fn new() -> Self { D(DenseHashSet::new()) }
    }
    fn h(s: &str) -> LocalNameHash { LocalNameHash::from(s) }
    #[kani::proof]
    #[kani::unwind(20)]
    fn stack_directive_void_and_foreign() {
        let x: LocalNameHash = LocalNameHash::verif_from_raw(kani::any());
        let k: u8 = kani::any();
        let ns = match k % 3 { 0 => Namespace::Html, 1 => Namespace::Svg, _ => Namespace::MathML };
        let esi: bool = kani::any();
        // elements the HTML parser inserts and immediately pops (void elements, incl. the obsolete ones)
        let void = ["area", "base", "basefont", "bgsound", "br", "col", "embed", "hr", "img", "input", "keygen", "link", "meta", "param", "source", "track", "wbr"];
        let mut is_void = false;
        let mut i = 0;
        while i < void.len() { if x == h(void[i]) { is_void = true; } i += 1; }
        let item: StackItem<'static, D> = StackItem::new(LocalName::Hash(x));
        let d = Stack::<D>::get_stack_directive(&item, ns, esi);
        let code = match d { StackDirective::Push => 0, StackDirective::PushIfNotSelfClosing => 1, StackDirective::PopImmediately => 2 };
        let expected = if k % 3 == 0 { if is_void { 2 } else { 0 } } else { 1 };
        assert!(code == expected);
    }
}
//@append src/html/local_name.rs
#[cfg(kani)]
impl LocalNameHash { pub(crate) fn verif_from_raw(v: u64) -> Self { Self(v) } }
