// U-TBS: tree-builder feedback and ambiguity refusal (C03), tag-name hashing (C03, C15).
// All harnesses quantify over the FULL u64 hash domain (and all guard states); they are loop-free except for hashing concrete
// tag names (fixed, short, fully unwound) => complete proofs.

//@harness text_type_adjustment_table | complete | all u64 hashes vs the table of the statement (names hashed in the harness) | C03
//@harness ambiguity_guard_refuses_exactly | complete | all u64 hashes x all guard states (depth symbolic, < u64::MAX) | C03,C15
//@harness local_name_hash_update_total | complete | all (u64, u8) | C03,C15
//@harness foreign_content_exit_list | complete | all u64 hashes vs the standard's list (names hashed in the harness) | C03
//@append src/parser/tree_builder_simulator/mod.rs
#[cfg(kani)]
mod verif_kani_tbs {
    use super::*;
    fn h(s: &str) -> LocalNameHash { LocalNameHash::from(s) }
    fn kind(f: &TreeBuilderFeedback) -> u8 {
        match f {
            TreeBuilderFeedback::SwitchTextType(TextType::RCData) => 1,
            TreeBuilderFeedback::SwitchTextType(TextType::PlainText) => 2,
            TreeBuilderFeedback::SwitchTextType(TextType::ScriptData) => 3,
            TreeBuilderFeedback::SwitchTextType(TextType::RawText) => 4,
            TreeBuilderFeedback::SwitchTextType(_) => 5,
            TreeBuilderFeedback::SetAllowCdata(_) => 6,
            TreeBuilderFeedback::RequestLexeme(_) => 7,
            TreeBuilderFeedback::None => 0,
        }
    }
    // "textarea,title -> RCDATA; plaintext -> PLAINTEXT; script -> script data; style,iframe,xmp,noembed,noframes,noscript -> RAWTEXT"
    #[kani::proof]
    #[kani::unwind(14)]
    fn text_type_adjustment_table() {
        let x: LocalNameHash = LocalNameHash::verif_from_raw(kani::any());
        let expected = if x == h("textarea") || x == h("title") { 1 }
            else if x == h("plaintext") { 2 }
            else if x == h("script") { 3 }
            else if x == h("style") || x == h("iframe") || x == h("xmp") || x == h("noembed") || x == h("noframes") || x == h("noscript") { 4 }
            else { 0 };
        assert!(kind(&get_text_type_adjustment(x)) == expected);
    }
    #[kani::proof]
    #[kani::unwind(46)]
    fn foreign_content_exit_list() {
        let x: LocalNameHash = LocalNameHash::verif_from_raw(kani::any());
        let names = ["b", "big", "blockquote", "body", "br", "center", "code", "dd", "div", "dl", "dt", "em", "embed", "h1", "h2", "h3", "h4",
            "h5", "h6", "head", "hr", "i", "img", "li", "listing", "menu", "meta", "nobr", "ol", "p", "pre", "ruby", "s", "small",
            "span", "strong", "strike", "sub", "sup", "table", "tt", "u", "ul", "var"];
        let mut expected = false;
        let mut i = 0;
        while i < names.len() { if x == h(names[i]) { expected = true; } i += 1; }
        assert!(causes_foreign_content_exit(x) == expected);
    }
}
//@append src/parser/tree_builder_simulator/ambiguity_guard.rs
#[cfg(kani)]
mod verif_kani_guard {
    use super::*;
    fn h(s: &str) -> LocalNameHash { LocalNameHash::from(s) }
    fn any_state() -> State {
        let k: u8 = kani::any();
        match k % 4 { 0 => State::Default, 1 => State::InSelect, 2 => { let d: u64 = kani::any(); kani::assume(d >= 1 && d < u64::MAX); State::InTemplateInSelect(d) } _ => State::InOrAfterFrameset }
    }
    fn code(s: State) -> (u8, u64) { match s { State::Default => (0, 0), State::InSelect => (1, 0), State::InTemplateInSelect(d) => (2, d), State::InOrAfterFrameset => (3, 0) } }
    // strict mode fails only when a text-mode-switching start tag occurs inside select (incl. template in select) or in/after frameset
    #[kani::proof]
    #[kani::unwind(14)]
    #[kani::stub(tag_hash_to_string, verif_tag_name_stub)]
    fn ambiguity_guard_refuses_exactly() {
        let x: LocalNameHash = LocalNameHash::verif_from_raw(kani::any());
        let s0 = any_state();
        let mut g = AmbiguityGuard { state: s0 };
        let switching = x == h("textarea") || x == h("title") || x == h("plaintext") || x == h("script") || x == h("style")
            || x == h("iframe") || x == h("xmp") || x == h("noembed") || x == h("noframes") || x == h("noscript");
        let r = g.track_start_tag(x);
        let (k0, d0) = code(s0);
        let (k1, d1) = code(g.state);
        let expect_err = match k0 {
            0 => false,
            1 => switching && !(x == h("textarea")) && !(x == h("script")),
            2 => switching,
            _ => switching && !(x == h("noframes")),
        };
        assert!(r.is_err() == expect_err);
        // state transitions
        if k0 == 0 { assert!(k1 == if x == h("select") { 1 } else if x == h("frameset") { 3 } else { 0 }); }
        if k0 == 1 && r.is_ok() {
            let leaves = x == h("select") || x == h("textarea") || x == h("input") || x == h("keygen");
            assert!((k1, d1) == if leaves { (0, 0) } else if x == h("template") { (2, 1) } else { (1, 0) });
        }
        if k0 == 2 && r.is_ok() { assert!((k1, d1) == if x == h("template") { (2, d0 + 1) } else { (2, d0) }); }
        if k0 == 3 { assert!(k1 == 3); }
        if r.is_err() { assert!((k1, d1) == (k0, d0)); }
        // end tags
        let y: LocalNameHash = LocalNameHash::verif_from_raw(kani::any());
        let s2 = any_state();
        let mut g2 = AmbiguityGuard { state: s2 };
        g2.track_end_tag(y);
        let (a0, b0) = code(s2);
        let (a1, b1) = code(g2.state);
        let exp = if a0 == 1 && y == h("select") { (0, 0) } else if a0 == 2 && y == h("template") { if b0 == 1 { (1, 0) } else { (2, b0 - 1) } } else { (a0, b0) };
        assert!((a1, b1) == exp);
    }
    fn verif_tag_name_stub(_tag_name: LocalNameHash) -> Box<str> { Box::from("") }
}
//@append src/html/local_name.rs
#[cfg(kani)]
impl LocalNameHash { pub(crate) fn verif_from_raw(v: u64) -> Self { Self(v) } }
#[cfg(kani)]
mod verif_kani_hash {
    use super::*;
    // update is total (no overflow/shift panic) for every hash and byte; a byte outside [a-zA-Z1-6] or a 13th character invalidates
    #[kani::proof]
    fn local_name_hash_update_total() {
        let mut x = LocalNameHash(kani::any());
        let before = x.0;
        let ch: u8 = kani::any();
        x.update(ch);
        let valid_ch = ch.is_ascii_alphabetic() || (b'1'..=b'6').contains(&ch);
        if !valid_ch || (before >> 59) != 0 { assert!(x.is_empty()); }
        if valid_ch && (before >> 59) == 0 {
            let low = if ch.is_ascii_alphabetic() { (ch.to_ascii_lowercase() - b'a') as u64 + 6 } else { (ch - b'1') as u64 };
            assert!(x.0 == (before << 5) | low);
            // case-insensitive
            let mut y = LocalNameHash(before);
            y.update(ch ^ 0x20);
            if ch.is_ascii_alphabetic() { assert!(y.0 == x.0); }
        }
    }
}
