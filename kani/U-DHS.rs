// U-DHS: the match-id bit set of the selector VM (which handlers an element matched: C04/C05) -- insert/union keep every
// previously present id and add exactly the requested ones; no panic/debug_assert for any id (C15).  Ids bounded (stated).

//@harness dense_set_insert_exact | bounded | first id symbolic < 32, then two ids from {31,32,63,64,100,199} (up to 2 growth steps), membership of a symbolic id < 416 | C04,C05,C15
//@harness dense_set_union_exact | bounded | union (both directions) of {a} (symbolic < 32) and {b}, b in {31,32,63,64,100,199} | C04,C05,C15
//@append src/selectors_vm/match_info.rs
#[cfg(kani)]
mod verif_kani_dhs {
    use super::*;
    fn has(s: &DenseHashSet, v: u32) -> bool {
        let w = s.slice();
        let i = (v / 32) as usize;
        i < w.len() && (w[i] >> (v & 31)) & 1 == 1
    }
    // the second id is taken from a fixed list so that every allocation size is concrete (a symbolic capacity exhausts CBMC)
    fn second(k: u8) -> u32 { match k % 6 { 0 => 31, 1 => 32, 2 => 63, 3 => 64, 4 => 100, _ => 199 } }
    #[kani::proof]
    #[kani::unwind(16)]
    fn dense_set_insert_exact() {
        let a: u32 = kani::any();
        let q: u32 = kani::any();
        kani::assume(a < 32 && q < 416);
        let mut s = DenseHashSet::new();
        s.insert(a);
        assert!(has(&s, a));
        let mut k = 0u8;
        while k < 6 {
            let mut t = s.clone();
            let b = second(k);
            t.insert(b);
            // exactly {a, b}: membership of an arbitrary id q
            assert!(has(&t, q) == (q == a || q == b));
            let c = second(k + 1);
            t.insert(c);
            assert!(has(&t, q) == (q == a || q == b || q == c));
            k += 1;
        }
    }
    #[kani::proof]
    #[kani::unwind(16)]
    fn dense_set_union_exact() {
        let a: u32 = kani::any();
        let q: u32 = kani::any();
        kani::assume(a < 32 && q < 224);
        let mut k = 0u8;
        while k < 6 {
            let b = second(k);
            let mut s = DenseHashSet::new();
            s.insert(a);
            let mut t = DenseHashSet::new();
            t.insert(b);
            let mut u = t.clone();
            u.union(&s);
            s.union(&t);
            assert!(has(&s, q) == (q == a || q == b));
            assert!(has(&u, q) == (q == a || q == b));
            assert!(has(&t, q) == (q == b));
            k += 1;
        }
    }
}
