// U-ESC: escaping of inserted content (C08) and UTF-8 helper functions (C13).  String lengths bounded (stated per harness).

//@harness escape_double_quotes_roundtrip | bounded | all byte strings of length <= 4 | C08
//@harness escape_body_text_roundtrip | bounded | all valid UTF-8 strings of <= 3 bytes | C08
//@harness attr_name_validation_vs_spec | bounded | all ASCII names of length <= 3, UTF-8 document | C08,C15
//@harness utf8_width_and_continuation | complete | all u8 | C13,C15
//@append src/html/mod.rs
#[cfg(kani)]
mod verif_kani_esc {
    use super::*;
    // output never contains `"`; replacing `&quot;` by `"` gives the input back; no empty piece is emitted
    #[kani::proof]
    #[kani::unwind(7)]
    fn escape_double_quotes_roundtrip() {
        let a: [u8; 4] = kani::any();
        let n: usize = kani::any();
        kani::assume(n <= 4);
        let mut out: [u8; 24] = [0; 24];
        let mut len = 0usize;
        let mut empty_piece = false;
        escape_double_quotes_only(Bytes::new(&a[..n]), &mut |c: &[u8]| {
            if c.is_empty() { empty_piece = true; }
            let mut i = 0;
            while i < c.len() { out[len] = c[i]; len += 1; i += 1; }
        });
        assert!(!empty_piece);
        // decode: walk the output, `&quot;` -> `"`
        let mut i = 0; let mut k = 0;
        while i < len {
            assert!(out[i] != b'"');
            assert!(k < n);
            if a[k] == b'"' { assert!(i + 6 <= len && &out[i..i + 6] == b"&quot;"); i += 6; } else { assert!(out[i] == a[k]); i += 1; }
            k += 1;
        }
        assert!(k == n);
    }
    // output contains no `<`/`>`; every `&` of the output starts `&amp;`/`&lt;`/`&gt;`; un-escaping gives the input back
    #[kani::proof]
    #[kani::unwind(6)]
    fn escape_body_text_roundtrip() {
        let a: [u8; 3] = kani::any();
        let n: usize = kani::any();
        kani::assume(n <= 3);
        let Ok(s) = std::str::from_utf8(&a[..n]) else { return };
        let mut out: [u8; 18] = [0; 18];
        let mut len = 0usize;
        let mut empty_piece = false;
        escape_body_text(s, &mut |c: &str| {
            if c.is_empty() { empty_piece = true; }
            let b = c.as_bytes();
            let mut i = 0;
            while i < b.len() { out[len] = b[i]; len += 1; i += 1; }
        });
        assert!(!empty_piece);
        let mut i = 0; let mut k = 0;
        while i < len {
            assert!(out[i] != b'<' && out[i] != b'>');
            assert!(k < n);
            match a[k] {
                b'<' => { assert!(i + 4 <= len && &out[i..i + 4] == b"&lt;"); i += 4; }
                b'>' => { assert!(i + 4 <= len && &out[i..i + 4] == b"&gt;"); i += 4; }
                b'&' => { assert!(i + 5 <= len && &out[i..i + 5] == b"&amp;"); i += 5; }
                x => { assert!(out[i] == x); i += 1; }
            }
            k += 1;
        }
        assert!(k == n);
    }
}
//@append src/rewritable_units/text_encoder.rs
#[cfg(kani)]
mod verif_kani_utf8 {
    use super::*;
    #[kani::proof]
    fn utf8_width_and_continuation() {
        let b: u8 = kani::any();
        assert!(is_continuation_byte(b) == (b & 0xC0 == 0x80));
        let w = utf8_width(b);
        let spec = if b < 0x80 { 0 } else if b < 0xC0 { 1 } else if b < 0xE0 { 2 } else if b < 0xF0 { 3 } else if b < 0xF8 { 4 } else if b < 0xFC { 5 } else if b < 0xFE { 6 } else if b < 0xFF { 7 } else { 8 };
        assert!(w == spec);
    }
}

//@append src/rewritable_units/tokens/attributes.rs
#[cfg(kani)]
mod verif_kani_attr_name {
    use super::*;
    // a name is accepted iff it is non-empty and contains none of the characters that end an attribute name in the tokenizer
    // (whitespace, '/', '>', '='), at ANY position; an accepted name is stored byte for byte
    #[kani::proof]
    #[kani::unwind(6)]
    fn attr_name_validation_vs_spec() {
        let a: [u8; 3] = kani::any();
        let n: usize = kani::any();
        kani::assume(n <= 3);
        let mut i = 0;
        while i < 3 { kani::assume(a[i] < 128); i += 1; }
        let Ok(s) = std::str::from_utf8(&a[..n]) else { return };
        let mut forbidden = false;
        let mut k = 0;
        while k < n { if matches!(a[k], b' ' | b'\n' | b'\r' | b'\t' | b'\x0C' | b'/' | b'>' | b'=') { forbidden = true; } k += 1; }
        let r = Attribute::name_from_string(String::from(s), encoding_rs::UTF_8);
        assert!(r.is_err() == (n == 0 || forbidden));
        if let Ok(b) = r { assert!(&*b == &a[..n]); }
    }
}
