// U-MEM: accounting of the memory limiter and of the two input-driven containers charged to it (C10).
// Limiter: function contracts (requires/ensures) proved with proof_for_contract over the full usize domain (loop-free => complete).
// Arena / LimitedVec: symbolic limit and contents, buffer lengths bounded (stated per harness) => bounded stand-ins.

//@contract src/memory/limiter.rs | impl SharedMemoryLimiter | increase_usage
//@| #[cfg_attr(kani, kani::requires(self.current_usage.load(Ordering::Relaxed).checked_add(byte_count).is_some()))]
//@| #[cfg_attr(kani, kani::ensures(|r| r.is_ok() == (old(self.current_usage.load(Ordering::Relaxed)) + byte_count <= self.max)))]
//@| #[cfg_attr(kani, kani::ensures(|r| self.current_usage.load(Ordering::Relaxed) == old(self.current_usage.load(Ordering::Relaxed)) + byte_count))]
//@| #[cfg_attr(kani, kani::modifies(self.current_usage.as_ptr()))]

//@contract src/memory/limiter.rs | impl SharedMemoryLimiter | decrease_usage
//@| #[cfg_attr(kani, kani::requires(self.current_usage.load(Ordering::Relaxed) >= byte_count))]
//@| #[cfg_attr(kani, kani::ensures(|_r| self.current_usage.load(Ordering::Relaxed) == old(self.current_usage.load(Ordering::Relaxed)) - byte_count))]
//@| #[cfg_attr(kani, kani::modifies(self.current_usage.as_ptr()))]

//@harness limiter_increase_usage_contract | complete | full usize domain (max, prev, n), loop-free | C10,C15
//@harness limiter_decrease_usage_contract | complete | full usize domain, loop-free | C10,C15
//@harness limiter_ok_iff_within_limit | complete | full usize domain, loop-free | C10,C15
//@append src/memory/limiter.rs
#[cfg(kani)]
impl SharedMemoryLimiter {
    pub(crate) fn verif_usage(&self) -> usize { self.current_usage.load(Ordering::Relaxed) }
}
#[cfg(kani)]
mod verif_kani_limiter {
    use super::*;
    fn any_limiter() -> SharedMemoryLimiter {
        let l = SharedMemoryLimiter::new(kani::any());
        l.current_usage.store(kani::any(), Ordering::Relaxed);
        l
    }
    #[kani::proof_for_contract(SharedMemoryLimiter::increase_usage)]
    fn limiter_increase_usage_contract() {
        let l = any_limiter();
        let _ = l.increase_usage(kani::any());
    }
    #[kani::proof_for_contract(SharedMemoryLimiter::decrease_usage)]
    fn limiter_decrease_usage_contract() {
        let l = any_limiter();
        l.decrease_usage(kani::any());
    }
    // the property clause itself, as a plain loop-free full-domain harness (complete): Ok <=> prev + n <= max; the charge is
    // recorded in both cases; a successful call never leaves usage above the limit
    #[kani::proof]
    fn limiter_ok_iff_within_limit() {
        let max: usize = kani::any();
        let l = SharedMemoryLimiter::new(max);
        let prev: usize = kani::any();
        l.current_usage.store(prev, Ordering::Relaxed);
        let n: usize = kani::any();
        kani::assume(prev.checked_add(n).is_some());   // A-no-usize-wrap
        kani::cover!(prev + n > max);
        kani::cover!(prev + n <= max && n > 0);
        let r = l.increase_usage(n);
        assert!(r.is_ok() == (prev + n <= max));
        assert!(l.verif_usage() == prev + n);
        if r.is_ok() { assert!(l.verif_usage() <= max); }
    }
}

//@harness arena_append_accounting | bounded | buffer lengths <= 4, symbolic limit and contents, 2 appends | C10,C15,C01
//@harness arena_init_with | bounded | buffer lengths <= 4, symbolic limit and contents | C10,C15,C01
//@append src/memory/arena.rs
#[cfg(kani)]
mod verif_kani_arena {
    use super::*;
    #[kani::proof]
    #[kani::unwind(10)]
    fn arena_append_accounting() {
        let max: usize = kani::any();
        let limiter = SharedMemoryLimiter::new(max);
        let pre: usize = kani::any();
        kani::assume(pre <= 4 && pre <= max);
        let mut arena = Arena::new(limiter.clone(), pre);
        let a: [u8; 4] = kani::any();
        let la: usize = kani::any();
        kani::assume(la <= 4);
        let b: [u8; 4] = kani::any();
        let lb: usize = kani::any();
        kani::assume(lb <= 4);
        let before0 = limiter.verif_usage();
        let cap0 = arena.data.capacity();
        let r1 = arena.append(&a[..la]);
        if r1.is_ok() {
            assert!(arena.bytes() == &a[..la]);
            // every successful growth was charged before it happened, and the total stays within the limit
            assert!(limiter.verif_usage() <= max);
            assert!(la <= cap0 || limiter.verif_usage() == before0 + (la - cap0));
            // no uncharged capacity: the buffer never owns more than what has been charged for it
            assert!(arena.data.capacity() <= limiter.verif_usage());
            let before = limiter.verif_usage();
            let cap = arena.data.capacity();
            kani::cover!(la + lb > cap);
            let r2 = arena.append(&b[..lb]);
            if r2.is_ok() {
                assert!(arena.bytes().len() == la + lb);
                assert!(&arena.bytes()[..la] == &a[..la]);
                assert!(&arena.bytes()[la..] == &b[..lb]);
                assert!(limiter.verif_usage() <= max);
                assert!(arena.data.capacity() <= limiter.verif_usage());
            } else {
                // the failing call leaves the buffer untouched and failed only because the charge exceeds the limit
                assert!(arena.bytes() == &a[..la]);
                assert!(arena.data.capacity() == cap);
                assert!(before + (la + lb - cap) > max);
            }
        } else {
            assert!(arena.bytes().is_empty());
            assert!(before0 + (la - cap0) > max);
        }
    }
    #[kani::proof]
    #[kani::unwind(10)]
    fn arena_init_with() {
        let max: usize = kani::any();
        let limiter = SharedMemoryLimiter::new(max);
        let mut arena = Arena::new(limiter.clone(), 0);
        let a: [u8; 4] = kani::any();
        let la: usize = kani::any();
        kani::assume(la <= 4);
        // (Arena::shift moves bytes only and never touches the limiter: its view is proved unbounded in Verus, U-ARENA)
        let r = arena.init_with(&a[..la]);
        if r.is_ok() {
            assert!(arena.bytes() == &a[..la]);
            assert!(limiter.verif_usage() <= max);
            assert!(limiter.verif_usage() == la);
        } else {
            assert!(la > max);
            assert!(arena.bytes().is_empty());
        }
    }
}

//@harness limited_vec_push_accounting_u8 | bounded | <= 10 pushes of u8 (min_capacity 128 => one growth step), symbolic limit | C10,C15
//@harness limited_vec_push_accounting_wide | bounded | <= 9 pushes of [u64;5] (min_capacity 8 => two growth steps), symbolic limit | C10,C15
//@append src/memory/limited_vec.rs
#[cfg(kani)]
mod verif_kani_limited_vec {
    use super::*;
    fn check<T: Copy + Default>(n: usize) {
        let max: usize = kani::any();
        let limiter = SharedMemoryLimiter::new(max);
        let mut ok_pushes = 0usize;
        let mut failed = false;
        {
            let mut v: LimitedVec<T> = LimitedVec::new(limiter.clone());
            let mut i = 0;
            while i < n {
                let cap_before = v.vec.capacity();
                let used_before = limiter.verif_usage();
                match v.push(T::default()) {
                    Ok(()) => {
                        ok_pushes += 1;
                        // invariant: what is charged is exactly capacity * size_of::<T>()
                        assert!(limiter.verif_usage() == v.vec.capacity() * size_of::<T>());
                        assert!(limiter.verif_usage() <= max);
                        assert!(v.len() == ok_pushes);
                    }
                    Err(_) => {
                        // failure only when the element did not fit and the growth step would exceed the limit; nothing changed
                        assert!(cap_before == v.vec.len());
                        assert!(v.vec.capacity() == cap_before);
                        let additional = cap_before.max(LimitedVec::<T>::min_capacity());
                        assert!(used_before + additional * size_of::<T>() > max);
                        failed = true;
                        break;
                    }
                }
                i += 1;
            }
            kani::cover!(ok_pushes == n);
        }
        // Drop returns exactly what was charged for the capacity (the over-charge of a *failed* growth step is deliberately
        // not returned: the rewriter is poisoned by then)
        if !failed { assert!(limiter.verif_usage() == 0); }
    }
    #[kani::proof]
    #[kani::unwind(12)]
    fn limited_vec_push_accounting_u8() { check::<u8>(10); }
    #[kani::proof]
    #[kani::unwind(11)]
    fn limited_vec_push_accounting_wide() { check::<[u64; 5]>(9); }
}
