// U-HVEC: reference-counted handler vectors (src/rewriter/handlers_dispatcher.rs) -- C05's "exactly once, in order, only in scope".
// Symbolic user counts (full u32 subject to the structure invariant), vector length bounded => bounded stand-ins, except where noted.

//@harness hvec_for_each_active_order | bounded | <= 3 items, symbolic user counts, failing callback index symbolic | C05
//@harness hvec_deactivate_once | bounded | <= 3 items, symbolic user counts | C05
//@harness hvec_remove_tail | bounded | <= 3 items, symbolic user counts | C05
//@harness hvec_inc_dec_sum | bounded | <= 3 items, symbolic user counts and locator | C05,C15
//@harness locator_to_idx_total | complete | all NonZero<u32> | C05,C15
//@harness scoped_handlers_start_stop_balance | bounded | one selector registration with every combination of element/comments/text handlers (fn-pointer handler types), one matched element, with/without content | C05
//@append src/rewriter/handlers_dispatcher.rs
#[cfg(kani)]
mod verif_kani_hvec {
    use super::*;

    fn any_vec(n: usize) -> HandlerVec<u8> {
        let mut v: HandlerVec<u8> = HandlerVec::default();
        let mut i = 0;
        while i < n {
            let c: u32 = kani::any();
            kani::assume(c <= 1000);
            v.items.push(HandlerVecItem { handler: i as u8, user_count: c });
            v.user_count += c;
            i += 1;
        }
        v
    }
    fn sum(v: &HandlerVec<u8>) -> u32 { let mut s = 0; for it in &v.items { s += it.user_count; } s }
    fn any_len() -> usize { let n: usize = kani::any(); kani::assume(n <= 3); n }

    // for one token, handlers run in registration (index) order, each active one once, inactive ones never; an error stops the run
    #[kani::proof]
    #[kani::unwind(5)]
    fn hvec_for_each_active_order() {
        let n = any_len();
        let mut v = any_vec(n);
        let before: [u32; 3] = [v.items.get(0).map_or(0, |i| i.user_count), v.items.get(1).map_or(0, |i| i.user_count), v.items.get(2).map_or(0, |i| i.user_count)];
        let fail_at: u8 = kani::any();
        let mut calls: [u8; 3] = [0; 3];
        let mut order_ok = true;
        let mut last: i32 = -1;
        let r = v.for_each_active(|h| {
            if (*h as i32) <= last { order_ok = false; }
            last = *h as i32;
            calls[*h as usize] += 1;
            if *h == fail_at { Err("stop".into()) } else { Ok(()) }
        });
        assert!(order_ok);
        let mut i = 0;
        while i < n {
            let active = before[i] > 0;
            let reached = r.is_ok() || (i as u8) <= fail_at;
            assert!(calls[i] == if active && reached { 1 } else { 0 });
            i += 1;
        }
        assert!(sum(&v) == v.user_count);
        kani::cover!(n == 3 && r.is_err());
    }

    // element handlers: each active handler exactly once, then deactivated ("never twice")
    #[kani::proof]
    #[kani::unwind(5)]
    fn hvec_deactivate_once() {
        let n = any_len();
        let mut v = any_vec(n);
        let before: [u32; 3] = [v.items.get(0).map_or(0, |i| i.user_count), v.items.get(1).map_or(0, |i| i.user_count), v.items.get(2).map_or(0, |i| i.user_count)];
        let mut calls: [u8; 3] = [0; 3];
        let mut last: i32 = -1;
        let mut order_ok = true;
        let r = v.do_for_each_active_and_deactivate(|h| { if (*h as i32) <= last { order_ok = false; } last = *h as i32; calls[*h as usize] += 1; Ok(()) });
        assert!(r.is_ok() && order_ok);
        let mut i = 0;
        while i < n { assert!(calls[i] == if before[i] > 0 { 1 } else { 0 }); assert!(v.items[i].user_count == 0); i += 1; }
        assert!(v.user_count == 0 && !v.has_active());
        // a second run calls nobody
        let mut again = 0u8;
        let _ = v.do_for_each_active_and_deactivate(|_h| { again += 1; Ok(()) });
        assert!(again == 0);
        kani::cover!(n == 3);
    }

    // end-tag / end handlers: every active handler once (innermost = highest index first), consumed; already-fired ones (inactive, in front) stay
    #[kani::proof]
    #[kani::unwind(5)]
    fn hvec_remove_tail() {
        let n = any_len();
        let mut v = any_vec(n);
        let before: [u32; 3] = [v.items.get(0).map_or(0, |i| i.user_count), v.items.get(1).map_or(0, |i| i.user_count), v.items.get(2).map_or(0, |i| i.user_count)];
        let first_active = if n > 0 && before[0] > 0 { 0 } else if n > 1 && before[1] > 0 { 1 } else if n > 2 && before[2] > 0 { 2 } else { n };
        let mut calls: [u8; 3] = [0; 3];
        let mut last: i32 = 3;
        let mut order_ok = true;
        let r = v.do_for_each_active_and_remove_tail(|h| { if (h as i32) >= last { order_ok = false; } last = h as i32; calls[h as usize] += 1; Ok(()) });
        assert!(r.is_ok() && order_ok);
        let mut i = 0;
        while i < n { assert!(calls[i] == if before[i] > 0 { 1 } else { 0 }); i += 1; }
        assert!(v.items.len() == first_active);
        assert!(v.user_count == 0);
        kani::cover!(n == 3 && first_active == 1);
    }

    // the structure invariant user_count == sum of item counts is preserved by inc/dec, and has_active <=> some handler is in scope
    #[kani::proof]
    #[kani::unwind(5)]
    fn hvec_inc_dec_sum() {
        let n = any_len();
        let mut v = any_vec(n);
        let loc: u32 = kani::any();
        kani::assume(loc >= 1 && (loc as usize) <= n);
        let idx = Locator::new(loc).unwrap();
        let c0 = v.items[(loc - 1) as usize].user_count;
        v.inc_user_count(idx);
        assert!(v.items[(loc - 1) as usize].user_count == c0 + 1);
        assert!(sum(&v) == v.user_count && v.has_active());
        v.dec_user_count(idx);
        assert!(v.items[(loc - 1) as usize].user_count == c0);
        assert!(sum(&v) == v.user_count);
        assert!(v.has_active() == (sum(&v) > 0));
    }

    #[kani::proof]
    fn locator_to_idx_total() {
        let l: u32 = kani::any();
        kani::assume(l != 0);
        let i = locator_to_idx(Locator::new(l).unwrap());
        assert!(i == (l - 1) as usize);
    }

    // handler types without boxed closures (plain fn pointers), so that CBMC can hold the harness
    struct VH;
    fn h_doctype(_: &mut crate::rewritable_units::Doctype<'_>) -> HandlerResult { Ok(()) }
    fn h_comment(_: &mut crate::rewritable_units::Comment<'_>) -> HandlerResult { Ok(()) }
    fn h_text(_: &mut crate::rewritable_units::TextChunk<'_>) -> HandlerResult { Ok(()) }
    fn h_element(_: &mut crate::rewritable_units::Element<'_, '_, VH>) -> HandlerResult { Ok(()) }
    fn h_end_tag(_: &mut crate::rewritable_units::EndTag<'_>) -> HandlerResult { Ok(()) }
    fn h_end(_: &mut crate::rewritable_units::DocumentEnd<'_>) -> HandlerResult { Ok(()) }
    fn h_bail(_: &crate::rewriter::RewritingError, _: &mut crate::rewritable_units::BailOut<'_>) {}
    impl HandlerTypes for VH {
        type DoctypeHandler<'h> = fn(&mut crate::rewritable_units::Doctype<'_>) -> HandlerResult;
        type CommentHandler<'h> = fn(&mut crate::rewritable_units::Comment<'_>) -> HandlerResult;
        type TextHandler<'h> = fn(&mut crate::rewritable_units::TextChunk<'_>) -> HandlerResult;
        type ElementHandler<'h> = fn(&mut crate::rewritable_units::Element<'_, '_, VH>) -> HandlerResult;
        type EndTagHandler<'h> = fn(&mut crate::rewritable_units::EndTag<'_>) -> HandlerResult;
        type EndHandler<'h> = fn(&mut crate::rewritable_units::DocumentEnd<'_>) -> HandlerResult;
        type BailOutHandler<'h> = fn(&crate::rewriter::RewritingError, &mut crate::rewritable_units::BailOut<'_>);
        fn new_end_tag_handler<'h>(_handler: impl crate::rewriter::IntoHandler<crate::rewriter::EndTagHandlerSend<'h>>) -> Self::EndTagHandler<'h> { h_end_tag }
        fn new_element_handler<'h>(_handler: impl crate::rewriter::IntoHandler<crate::rewriter::ElementHandlerSend<'h, Self>>) -> Self::ElementHandler<'h> { h_element }
        fn combine_handlers(_handlers: Vec<Self::EndTagHandler<'_>>) -> Self::EndTagHandler<'_> { h_end_tag }
    }
    // a matched element activates exactly the comment and text handlers of its selector registration while it is open, and closing
    // it releases exactly those again (scoped handlers see nothing after the element is closed)
    #[kani::proof]
    #[kani::unwind(4)]
    fn scoped_handlers_start_stop_balance() {
        use crate::rewriter::rewrite_controller::ElementDescriptor;
        use crate::rewriter::settings::ElementContentHandlers;
        use crate::selectors_vm::{ElementData, MatchInfo};
        let mut d = ContentHandlersDispatcher::<VH>::default();
        let (e, c, t): (bool, bool, bool) = (kani::any(), kani::any(), kani::any());
        let h = ElementContentHandlers::<VH> { element: if e { Some(h_element as _) } else { None }, comments: if c { Some(h_comment as _) } else { None }, text: if t { Some(h_text as _) } else { None } };
        let id = d.add_selector_associated_handlers(h);
        assert!(d.comment_handlers.user_count == 0 && d.text_handlers.user_count == 0);
        let with_content: bool = kani::any();
        let mut desc = ElementDescriptor::new();
        d.start_matching(&MatchInfo { match_id: id, with_content });
        if with_content { desc.matched_ids_mut().insert(id); }
        assert!(d.comment_handlers.user_count == (if with_content && c { 1 } else { 0 }));
        assert!(d.text_handlers.user_count == (if with_content && t { 1 } else { 0 }));
        d.stop_matching(desc);
        // everything the element activated is released: no scoped text/comment handler stays active
        assert!(d.comment_handlers.user_count == 0 && d.text_handlers.user_count == 0);
        if t { assert!(d.text_handlers.items[0].user_count == 0); }
        if c { assert!(d.comment_handlers.items[0].user_count == 0); }
        let _ = (h_doctype as fn(&mut crate::rewritable_units::Doctype<'_>) -> HandlerResult, h_end as fn(&mut crate::rewritable_units::DocumentEnd<'_>) -> HandlerResult, h_bail as fn(&crate::rewriter::RewritingError, &mut crate::rewritable_units::BailOut<'_>));
    }
}
