// U-SEL: selector-matching leaf functions (C04): attribute operators (bounded strings).
// (:nth-child arithmetic is proved for all i32^3 in Verus, specs/U-NTH.vrs -- CBMC does not finish on the two 64-bit dividers.)

//@harness attr_eq_vs_spec | bounded | one attribute, value <= 3 bytes, operand <= 2 bytes, all byte values, all 4 case modes, html/non-html | C04
//@harness attr_prefix_vs_spec | bounded | one attribute, value <= 3 bytes, operand <= 2 bytes, all byte values, all 4 case modes, html/non-html | C04
//@harness attr_suffix_vs_spec | bounded | one attribute, value <= 3 bytes, operand <= 2 bytes, all byte values, all 4 case modes, html/non-html | C04
//@harness attr_dash_vs_spec | bounded | one attribute, value <= 3 bytes, operand <= 2 bytes, all byte values, all 4 case modes, html/non-html | C04
//@harness attr_substring_vs_spec | bounded | one attribute, value <= 3 bytes, operand <= 2 bytes, all byte values, all 4 case modes, html/non-html | C04
//@harness attr_word_vs_spec | bounded | one attribute, value <= 3 bytes, operand <= 2 bytes, all byte values, all 4 case modes, html/non-html | C04
//@harness attr_find_case_insensitive_first | bounded | two attributes with 1-byte names, all byte values | C04,C16
//@append src/selectors_vm/attribute_matcher.rs
#[cfg(kani)]
mod verif_kani_attr {
    use super::*;
    use crate::base::Range;
    fn eq_cs(a: &[u8], b: &[u8], ci: bool) -> bool {
        if a.len() != b.len() { return false; }
        let mut i = 0;
        while i < a.len() { let (x, y) = if ci { (a[i].to_ascii_lowercase(), b[i].to_ascii_lowercase()) } else { (a[i], b[i]) }; if x != y { return false; } i += 1; }
        true
    }
    struct Fix { input: [u8; 5], vl: usize, o: [u8; 2], ol: usize, ci: bool, is_html: bool, cs: ParsedCaseSensitivity }
    fn fix() -> Fix {
        // input = 'a' '=' v0 v1 v2 ; attribute name = [0,1), value = [2, 2+vl)
        let v: [u8; 3] = kani::any();
        let vl: usize = kani::any();
        kani::assume(vl <= 3);
        let o: [u8; 2] = kani::any();
        let ol: usize = kani::any();
        kani::assume(ol <= 2);
        let is_html: bool = kani::any();
        let mode: u8 = kani::any();
        let cs = match mode % 4 { 0 => ParsedCaseSensitivity::CaseSensitive, 1 => ParsedCaseSensitivity::AsciiCaseInsensitive,
                                  2 => ParsedCaseSensitivity::AsciiCaseInsensitiveIfInHtmlElementInHtmlDocument, _ => ParsedCaseSensitivity::ExplicitCaseSensitive };
        let ci = match mode % 4 { 1 => true, 2 => is_html, _ => false };
        Fix { input: [b'a', b'=', v[0], v[1], v[2]], vl, o, ol, ci, is_html, cs }
    }
    macro_rules! with_matcher {
        ($f:ident, $m:ident, $operand:ident, $val:ident, $op:ident, $body:block) => {{
            let $f = fix();
            let attrs: AttributeBuffer = vec![AttributeOutline { name: Range { start: 0, end: 1 }, value: Range { start: 2, end: 2 + $f.vl }, raw_range: Range { start: 0, end: 2 + $f.vl } }];
            let $m = AttributeMatcher::new(Bytes::new(&$f.input), &attrs, if $f.is_html { Namespace::Html } else { Namespace::Svg });
            let $operand = AttrExprOperands { name: b"a".to_vec().into(), value: $f.o[..$f.ol].to_vec().into(), case_sensitivity: $f.cs };
            let $val = &$f.input[2..2 + $f.vl];
            let $op = &$f.o[..$f.ol];
            $body
        }};
    }
    // [a=v]
    #[kani::proof] #[kani::unwind(6)]
    fn attr_eq_vs_spec() { with_matcher!(f, m, operand, val, op, { assert!(m.attr_eq(&operand) == eq_cs(val, op, f.ci)); assert!(m.has_attribute(b"a") && !m.has_attribute(b"b")); }) }
    // [a^=v]: v non-empty and the value starts with v   (CSS Selectors 6.2: an empty v represents nothing)
    #[kani::proof] #[kani::unwind(6)]
    fn attr_prefix_vs_spec() { with_matcher!(f, m, operand, val, op, {
        let prefix = f.vl >= f.ol && eq_cs(&val[..f.ol], op, f.ci);
        assert!(m.has_attr_with_prefix(&operand) == (f.ol > 0 && prefix)); }) }
    // [a$=v]
    #[kani::proof] #[kani::unwind(6)]
    fn attr_suffix_vs_spec() { with_matcher!(f, m, operand, val, op, {
        let suffix = f.vl >= f.ol && eq_cs(&val[f.vl - f.ol..], op, f.ci);
        assert!(m.has_attr_with_suffix(&operand) == (f.ol > 0 && suffix)); }) }
    // [a|=v]: exactly v, or v followed by '-'
    #[kani::proof] #[kani::unwind(6)]
    fn attr_dash_vs_spec() { with_matcher!(f, m, operand, val, op, {
        let dash = eq_cs(val, op, f.ci) || (f.vl > f.ol && val[f.ol] == b'-' && eq_cs(&val[..f.ol], op, f.ci));
        assert!(m.has_dash_matching_attr(&operand) == dash); }) }
    // [a*=v]: v non-empty and a substring
    #[kani::proof] #[kani::unwind(6)]
    fn attr_substring_vs_spec() { with_matcher!(f, m, operand, val, op, {
        let mut sub = false;
        let mut i = 0;
        while f.ol > 0 && i + f.ol <= f.vl { if eq_cs(&val[i..i + f.ol], op, f.ci) { sub = true; } i += 1; }
        assert!(m.has_attr_with_substring(&operand) == sub); }) }
    // [a~=v]: one of the whitespace-separated words equals v
    #[kani::proof] #[kani::unwind(6)]
    fn attr_word_vs_spec() { with_matcher!(f, m, operand, val, op, {
        let mut word = false;   // v non-empty (CSS: an empty v represents nothing)
        let mut start = 0;
        let mut j = 0;
        while j <= f.vl {
            if j == f.vl || is_attr_whitespace(val[j]) { if f.ol > 0 && eq_cs(&val[start..j], op, f.ci) { word = true; } start = j + 1; }
            j += 1;
        }
        assert!(m.matches_splitted_by_whitespace(&operand) == word); }) }
    #[kani::proof]
    #[kani::unwind(6)]
    fn attr_find_case_insensitive_first() {
        // two attributes n0=x n1=y ; lookup of a lowercased 1-byte name finds the FIRST whose name matches ASCII case-insensitively
        let n: [u8; 2] = kani::any();
        let input = [n[0], b'=', b'x', b' ', n[1], b'=', b'y'];
        let attrs: AttributeBuffer = vec![
            AttributeOutline { name: Range { start: 0, end: 1 }, value: Range { start: 2, end: 3 }, raw_range: Range { start: 0, end: 3 } },
            AttributeOutline { name: Range { start: 4, end: 5 }, value: Range { start: 6, end: 7 }, raw_range: Range { start: 4, end: 7 } }];
        let m = AttributeMatcher::new(Bytes::new(&input), &attrs, Namespace::Html);
        let q: u8 = kani::any();
        kani::assume(q == q.to_ascii_lowercase());
        let got = m.get_value(&[q]);
        let exp: Option<&[u8]> = if n[0].to_ascii_lowercase() == q { Some(b"x") } else if n[1].to_ascii_lowercase() == q { Some(b"y") } else { None };
        assert!(got == exp);
    }
}
