// U-SEL: selector-matching leaf functions (C04): :nth-child arithmetic (complete), attribute operators (bounded strings).

//@harness nth_child_has_index_spec | complete | all (step, offset, index) in i32^3 with index > 0, loop-free | C04,C15
//@append src/selectors_vm/ast.rs
#[cfg(kani)]
mod verif_kani_nth {
    use super::*;
    // has_index(i) <=> exists n >= 0: step*n + offset == i   (CSS An+B), for every element index i > 0; never panics/overflows
    #[kani::proof]
    fn nth_child_has_index_spec() {
        let step: i32 = kani::any();
        let offset: i32 = kani::any();
        let index: i32 = kani::any();
        kani::assume(index > 0);
        let got = NthChild::new(step, offset).has_index(index);
        // mathematical spec in i64 (no wrap): d = index - offset; step == 0 => d == 0; else d/step is a non-negative integer
        let d = index as i64 - offset as i64;
        let s = step as i64;
        let spec = if s == 0 { d == 0 } else { d % s == 0 && d / s >= 0 };
        assert!(got == spec);
    }
}

//@harness attr_operators_vs_spec | bounded | one attribute, value <= 3 bytes, operand <= 2 bytes, all byte values, both case modes, html/non-html | C04
//@harness attr_find_case_insensitive_first | bounded | two attributes with 1-byte names, all byte values | C04,C16
//@append src/selectors_vm/attribute_matcher.rs
#[cfg(kani)]
mod verif_kani_attr {
    use super::*;
    use crate::base::Range;
    fn eq_cs(a: &[u8], b: &[u8], ci: bool) -> bool {
        if a.len() != b.len() { return false; }
        let mut i = 0;
        while i < a.len() { let (x, y) = if ci { (a[i].to_ascii_lowercase(), b[i].to_ascii_lowercase()) } else { (a[i], b[i]) }; if x != y { return false; } i += 1; }
        true
    }
    #[kani::proof]
    #[kani::unwind(6)]
    fn attr_operators_vs_spec() {
        // input = 'a' '=' v0 v1 v2 ; attribute name = [0,1), value = [2, 2+vl)
        let v: [u8; 3] = kani::any();
        let vl: usize = kani::any();
        kani::assume(vl <= 3);
        let input = [b'a', b'=', v[0], v[1], v[2]];
        let attrs: AttributeBuffer = vec![AttributeOutline { name: Range { start: 0, end: 1 }, value: Range { start: 2, end: 2 + vl }, raw_range: Range { start: 0, end: 2 + vl } }];
        let is_html: bool = kani::any();
        let m = AttributeMatcher::new(Bytes::new(&input), &attrs, if is_html { Namespace::Html } else { Namespace::Svg });
        let o: [u8; 2] = kani::any();
        let ol: usize = kani::any();
        kani::assume(ol <= 2);
        let mode: u8 = kani::any();
        let cs = match mode % 4 { 0 => ParsedCaseSensitivity::CaseSensitive, 1 => ParsedCaseSensitivity::AsciiCaseInsensitive,
                                  2 => ParsedCaseSensitivity::AsciiCaseInsensitiveIfInHtmlElementInHtmlDocument, _ => ParsedCaseSensitivity::ExplicitCaseSensitive };
        let ci = match mode % 4 { 1 => true, 2 => is_html, _ => false };
        let operand = AttrExprOperands { name: b"a".to_vec().into(), value: o[..ol].to_vec().into(), case_sensitivity: cs };
        let val = &input[2..2 + vl];
        let op = &o[..ol];
        // [a=v]
        assert!(m.attr_eq(&operand) == eq_cs(val, op, ci));
        // [a^=v]: non-empty value starting with v   (an empty operand matches nothing per Selectors-4; the code requires a non-empty value)
        let prefix = vl >= ol && eq_cs(&val[..ol], op, ci);
        assert!(m.has_attr_with_prefix(&operand) == (vl > 0 && prefix));
        // [a$=v]
        let suffix = vl >= ol && eq_cs(&val[vl - ol..], op, ci);
        assert!(m.has_attr_with_suffix(&operand) == (vl > 0 && suffix));
        // [a|=v]: exactly v, or v followed by '-'
        let dash = eq_cs(val, op, ci) || (vl > ol && val[ol] == b'-' && eq_cs(&val[..ol], op, ci));
        assert!(m.has_dash_matching_attr(&operand) == dash);
        // [a*=v]: v non-empty and a substring
        let mut sub = false;
        let mut i = 0;
        while ol > 0 && i + ol <= vl { if eq_cs(&val[i..i + ol], op, ci) { sub = true; } i += 1; }
        assert!(m.has_attr_with_substring(&operand) == sub);
        // [a~=v]: one of the whitespace-separated words equals v
        let mut word = false;
        let mut start = 0;
        let mut j = 0;
        while j <= vl {
            if j == vl || is_attr_whitespace(val[j]) { if eq_cs(&val[start..j], op, ci) { word = true; } start = j + 1; }
            j += 1;
        }
        assert!(m.matches_splitted_by_whitespace(&operand) == word);
        assert!(m.has_attribute(b"a"));
        assert!(!m.has_attribute(b"b"));
    }
    #[kani::proof]
    #[kani::unwind(6)]
    fn attr_find_case_insensitive_first() {
        // two attributes n0=x n1=y ; lookup of a lowercased 1-byte name finds the FIRST whose name matches ASCII case-insensitively
        let n: [u8; 2] = kani::any();
        let input = [n[0], b'=', b'x', b' ', n[1], b'=', b'y'];
        let attrs: AttributeBuffer = vec![
            AttributeOutline { name: Range { start: 0, end: 1 }, value: Range { start: 2, end: 3 }, raw_range: Range { start: 0, end: 3 } },
            AttributeOutline { name: Range { start: 4, end: 5 }, value: Range { start: 6, end: 7 }, raw_range: Range { start: 4, end: 7 } }];
        let m = AttributeMatcher::new(Bytes::new(&input), &attrs, Namespace::Html);
        let q: u8 = kani::any();
        kani::assume(q == q.to_ascii_lowercase());
        let got = m.get_value(&[q]);
        let exp: Option<&[u8]> = if n[0].to_ascii_lowercase() == q { Some(b"x") } else if n[1].to_ascii_lowercase() == q { Some(b"y") } else { None };
        assert!(got == exp);
    }
}
